#!/usr/bin/env python3
"""usage: trial_chan.py <first seed> <count>: generated channel programs through all three channel oracles."""
import sys, os, time
sys.path.insert(0, "/verif/lib")
import common, genprog, p_channel
from common import WORK, harness
first, count = int(sys.argv[1]), int(sys.argv[2])
common.build_harness()
bad = 0
for seed in range(first, first + count):
    name, s, ns, r, nr, pre, extra, spur = genprog.channel_program(seed)
    args = ["--senders", s, "--sends", ns, "--receivers", r, "--recvs", nr, "--prefill", pre, "--spurious", spur] + extra
    out = os.path.join(WORK, "trialc_" + name)
    t0 = time.time()
    try:
        stats, _, _ = harness("channel", *args, "--out", out, "--max", 60000, "--fine-max", 0, timeout=900)
    except Exception as e:
        print("HARNESS", name, args, str(e)[:200]); bad += 1; continue
    bound = 6 + spur
    res = []
    for mod, consts, inv, cons in [("TraceChannelAbs.tla", dict(SLOTS=5, StepBound=bound, CheckDrops=True), ["SlotsBounded"], ["Mark"]),
                                   ("TraceChannelCells.tla", dict(SLOTS=5), ["V_C07"], []),
                                   ("TraceChannelProgress.tla", dict(StepBound=bound), ["V_C08"], [])]:
        tv = common.validate_trace(mod, out + ".abs.ndjson", "trialc_%s_%s" % (name, mod[:-4]), constants=consts, invariants=inv, constraints=cons)
        res.append(tv.accepted)
        if not tv.accepted:
            print("FAIL", name, mod, " ".join(map(str, args)), tv.violation, tv.rejected_at, str(tv.rejected)[:150])
    if all(res):
        print("ok  ", name, " ".join(map(str, args)), "schedules", stats["schedules"], "exh", stats["exhausted"], "%.1fs" % (time.time() - t0))
    else:
        bad += 1
print("bad:", bad)
