#!/bin/bash
# usage: confirm_seed.sh <worktree> <crate dir for demo ('.' or signal-hook-registry)> <package> <demo file>...
# Confirms in a scratch worktree: suite passes with the patch; demo fails with it and passes without.
wt=$1; dir=$2; pkg=$3; shift 3
cd $wt || exit 2
git checkout -q -- . ; git apply seed_out/patch.diff || { echo "patch does not apply"; exit 2; }
echo "--- suite with patch"; cargo test --workspace --no-fail-fast --offline 2>&1 | grep -E "^test result" | awk '{p+=$4; f+=$6} END {print "passed="p" failed="f}'
for d in "$@"; do
  cp seed_out/demo/$d $dir/tests/
  t=${d%.rs}
  echo "--- demo $t WITH patch"; timeout 300 cargo test --offline -p $pkg --test $t -- --nocapture 2>&1 | grep -E "^test result|panicked|HANG|VIOLAT|signal:" | head -4
done
git apply -R seed_out/patch.diff
for d in "$@"; do
  t=${d%.rs}
  echo "--- demo $t WITHOUT patch"; timeout 300 cargo test --offline -p $pkg --test $t -- --nocapture 2>&1 | grep -E "^test result|panicked|HANG|VIOLAT|signal:" | head -4
  rm -f $dir/tests/$d
done
git status --short | head -5
