#!/bin/bash
# usage: lane_mutant.sh <lane> <abs patch.diff> <check id>...
# Runs the checks against a scratch worktree of /repo with the patch applied, in a private lane
# (own harness build, work and evidence directories): /repo itself is not touched, several lanes
# can run side by side. The worktree and the lane are removed afterwards.
set -u
lane=$1; patch=$2; shift 2
wt=/tmp/lane_repo_$lane
git -C /repo worktree remove --force $wt >/dev/null 2>&1
git -C /repo worktree add --detach $wt HEAD >/dev/null 2>&1 || { echo "cannot create worktree"; exit 2; }
(cd $wt && git apply "$patch") || { echo "patch does not apply"; git -C /repo worktree remove --force $wt; exit 2; }
for c in "$@"; do
  (cd /verif && VERIF_LANE=$lane VERIF_REPO=$wt ./check $c --tier ${TIER:-quick} 2>&1 | grep -E "VIOLATION|KNOWN|TOOL ERROR|holds on|VIOLATED" | cut -c1-260; echo "  -> $(basename $(dirname $patch))/$(basename $patch) $c exit ${PIPESTATUS[0]}")
done
git -C /repo worktree remove --force $wt
rm -rf /tmp/verif_lanes/$lane
