#!/usr/bin/env python3
"""usage: regress.py [-j N] [filter...]  -- runs every own mutant (mutants/*.diff) and every seeded bug
(seeded/*/patch.diff) against the check of its property, each in its own lane (scratch worktree,
private harness build; /repo is not touched). Prints one line per patch; exit 1 if a patch that must be
caught was not (or the property-preserving control was flagged)."""
import concurrent.futures as cf
import glob
import os
import re
import subprocess
import sys

V = "/verif"
EXPECT_QUIET = {"c04_data_before_fallback.diff"}
jobs = 3
args = sys.argv[1:]
if args[:1] == ["-j"]:
    jobs = int(args[1]); args = args[2:]
items = []
for f in sorted(glob.glob(V + "/mutants/*.diff")):
    items.append((f, re.match(r"c(\d+)_", os.path.basename(f)).group(1)))
for f in sorted(glob.glob(V + "/seeded/*/patch.diff")):
    items.append((f, re.match(r"C(\d+)_", os.path.basename(os.path.dirname(f))).group(1)))
if args:
    items = [i for i in items if any(a in i[0] for a in args)]


def run(it):
    f, n = it
    lane = re.sub(r"\W", "_", f[len(V) + 1:])[:60]
    p = subprocess.run([V + "/tools/lane_mutant.sh", lane, f, "C" + n], stdout=subprocess.PIPE,
                       stderr=subprocess.STDOUT, text=True)
    m = re.search(r"exit (\d+)\s*$", p.stdout.strip().splitlines()[-1] if p.stdout.strip() else "")
    rc = int(m.group(1)) if m else -1
    return f, n, rc, p.stdout


bad = 0
with cf.ThreadPoolExecutor(jobs) as ex:
    for f, n, rc, out in ex.map(run, items):
        want = 0 if os.path.basename(f) in EXPECT_QUIET else 1
        ok = rc == want
        bad += not ok
        print("%-7s C%s exit %d  %s" % ("ok" if ok else "MISSED" if rc == 0 else "PROBLEM", n, rc, f[len(V) + 1:]), flush=True)
        if not ok:
            print("\n".join("      " + l for l in out.splitlines()[-4:]))
print("regress: %d patches, %d not as expected" % (len(items), bad))
sys.exit(1 if bad else 0)
