#!/usr/bin/env python3
"""Regenerates /verif/MANIFEST.json from the table below (kept next to the checks so that the
manifest never drifts from what ./check implements)."""
import json
import os
import subprocess
import sys

HERE = os.path.dirname(os.path.dirname(os.path.abspath(__file__)))
sys.path.insert(0, os.path.join(HERE, "lib"))
import props  # noqa

TB = ("TLC 1.8.0 and CommunityModules Json/IOUtils; the sighook_verif shim (forwards to std); the harness "
      "scheduler (one runnable thread at a time, total event order) and its normalisation of "
      "addresses to ids; Mem.tla as a sound (never over-permissive) fragment of the C11/Rust "
      "memory model; bounded scopes as stated in the evidence")

CLAIMS = {
 "C01": ("model_checking",
         "TLC exhausts HalfLock.tla (one action per atomic operation, view-based weak memory, nested handler "
         "frames) with the read order / barrier shape / orderings extracted from the running code; every schedule of "
         "small real half-lock and registry scenarios (reader parked between count and pointer, delivery nested on the "
         "mutating thread) is executed under the scheduler and validated by TLC against HalfLockAbs / "
         "TraceRegistryAbs (free only when unheld, by a non-handler frame; action released once by the remover; "
         "no run after removal returned); an inductive invariant of the SC reading (HalfLockSC.tla) is re-checked by "
         "Apalache with the extracted read order / barrier shape (NoUseAfterFree for unboundedly many stores and steps) and "
         "HalfLockProof.tla carries a TLAPS proof of the same for any number of readers (44 obligations, re-checked); a "
         "delivery stalled in real time inside an earlier action while another thread removes a later one (probe stall); a "
         "real delivery at every instruction boundary of unregister / unregister_signal / drop (probe step)",
         "7.C01", "TLA+ fine model + parameter extraction + exhaustive schedule enumeration of real code + TLC trace validation"),
 "C02": ("model_checking",
         "every preemption-bounded schedule of deliveries against register/unregister/unregister_signal on the real "
         "registry, validated by TLC against the delivery monitor of TraceRegistryAbs.tla (must-run / may-run sets "
         "from call/return order, each once, id order, own signal only); plus the stalled-delivery probe (TraceStall.tla) "
         "and a real delivery at every instruction boundary of register / unregister / drop (TraceStep.tla: every "
         "registered action exactly once, the operation takes effect)",
         "7.C02", "exhaustive schedule enumeration of real code + TLC trace validation against property-level TLA+ monitor"),
 "C03": ("model_checking",
         "a delivery is injected, un-preempted, at every scheduling point of register/unregister/unregister_signal "
         "on the same thread and run on another thread at every boundary; its own shim steps, lock/yield/spin use and "
         "allocator traffic are logged and TLC validates them against V_C03 (no lock, no hint, no alloc/free, steps <= "
         "8 + #actions); the fine half-lock model checks that a reader frame is always enabled; on x86-64 nine library "
         "operations run under the trap flag and a forked copy of the process takes a kernel-delivered signal (all "
         "built-in actions registered) at EVERY instruction boundary (about 46 000): the delivery must return (watchdog), "
         "make no allocator call, and do its job (TraceStep.tla)",
         "7.C03", "freeze-at-every-boundary exploration of real code + real deliveries at every instruction boundary + TLC trace validation; ENABLED invariant on the fine model"),
 "C04": ("model_checking",
         "foreign plain/siginfo handlers (with and without SA_RESTART|SA_NODEFER), ignore and default are installed, "
         "then first registrations run under the scheduler with deliveries injected from the instant the kernel "
         "disposition is the library's (read back with sigaction), on the registering thread, on a dedicated thread and "
         "while another signal is being registered; TLC validates the chained handler's call log (once, first, same "
         "convention, same info pointer) against V_C04; on x86-64 the first registration over a foreign handler runs under "
         "the trap flag and the signal itself is delivered (by the kernel) at every one of its ~5000 instruction "
         "boundaries: whoever handles it, the foreign handler runs exactly once with its own convention (TraceStep.tla); "
         "FallbackProof.tla carries a TLAPS proof (38 obligations, re-checked) that every delivery reaching the "
         "dispatcher finds the previous handler in the slot or the race fallback, for any number of signals and deliveries",
         "7.C04", "exhaustive schedule enumeration of real code + TLC trace validation"),
 "C05": ("model_checking",
         "sequential and concurrent histories over register/unregister(live|stale)/unregister_signal/deliver on the "
         "real registry; TLC validates results, id uniqueness and the registry's final content per signal against the "
         "multiset model in TraceRegistryAbs.tla (V_C05); histories in a fresh forked process (RegistrySeq.tla) incl. "
         "foreign one-shot / NODEFER handlers installed before the take-over and a query of who handles the signal (and "
         "with which flags) after deliveries and removals",
         "7.C05", "history enumeration on real code + TLC trace validation against sequential TLA+ model"),
 "C06": ("model_checking",
         "TLC exhausts Channel.tla (bit-exact queue words, weak memory, nested sends, spurious weak-CAS failures) with "
         "the orderings/SLOTS/BITS extracted from the code; every schedule of small real Channel<T> scenarios (incl. "
         "forced spurious failures and sends nested in send/recv) is validated by TLC against ChannelAbs, a "
         "linearisability oracle whose internal points TLC places, and against Channel.tla step by step with raw words",
         "7.C06", "TLA+ fine model + parameter extraction + exhaustive schedules of real code + TLC trace validation (linearisability)"),
 "C07": ("model_checking",
         "NoRace over Mem.tla's happens-before with the extracted orderings (a downgrade of either CAS is a TLC "
         "counterexample, and the recorded real steps replayed through Channel.tla reach race=TRUE); destructor events "
         "of a tagged payload validated against ChannelAbs (each value dropped exactly once, by receiver / failing "
         "send / channel drop)",
         "7.C07", "weak-memory TLA+ model with extracted orderings + TLC trace validation of drop events"),
 "C08": ("model_checking",
         "freeze mode in Channel.tla: from every reachable state any frame runs alone to completion within the step "
         "bound and is always enabled, neither panic reachable, index partition invariant; on real code the own-step "
         "count of every operation after the last foreign step is validated (<= 6 + spurious) and panic/deadlock "
         "events reject the trace; scheduler strategy Hold reaches \"all five indices in flight\"; ChannelProof.tla carries "
         "a TLAPS proof (38 obligations, re-checked) that at the index-ownership level no enqueue lacks room and no "
         "receiver meets an empty cell, for any number of concurrent / nested operations",
         "7.C08", "freeze-mode TLA+ model + exhaustive schedules of real code + TLC trace validation"),
 "C09": ("model_checking",
         "every preemption-bounded schedule of deliveries (on other threads and nested on the consumer's thread, incl. "
         "between its drain and its scan) against wait / forever / pending / poll_signal (blocking and non-blocking "
         "callback) and add_signal on the real Signals / SignalsInfo<WithRawSiginfo> / SignalIterator with a real "
         "UnixStream pair; the scheduler knows when the consumer is blocked in read() (poll(2)); TLC validates against "
         "TraceIteratorAbs: a consumer blocked, or parked as pending at the end, with a set slot of a watched signal "
         "and no byte outstanding violates V_C09; the runtime adapters (tokio, async-std, mio 0.7/0.8/1.0) run operation "
         "histories (poll / deliver / close / add / reactor turn) in forked children and TLC validates them against "
         "the monitor of AsyncOps.tla (a parked task with an unreported signal must be woken by the reactor), whose "
         "implementation model is checked with the callback behaviour observed; WakeProof.tla carries a TLAPS proof "
         "(33 obligations, re-checked) of no-lost-wake-up for any number of delivering threads and signals, applicable "
         "while the extracted step orders are store-then-wake / drain-then-scan",
         "7.C09", "exhaustive schedule enumeration of real code + TLC trace validation against property-level TLA+ monitor"),
 "C10": ("model_checking",
         "same runs; every yield is validated: watched signal, yields <= deliveries begun at every instant, and for "
         "the raw-siginfo exfiltrator each record is the faithful copy of exactly one simulated delivery (id in "
         "si_pid/si_uid), never twice, and never before a record of a delivery that had returned before it began; "
         "bursts longer than the 5-slot buffer included; adapter histories: no yield without a delivery",
         "7.C10", "exhaustive schedule enumeration of real code + TLC trace validation"),
 "C11": ("model_checking",
         "close() from one or two handles at every scheduling point of poll_signal / wait / forever, with concurrent "
         "deliveries; TLC validates: closed flag sticky on every load, PollResult::Pending only if the callback was "
         "consulted in that call and said no, nobody stays blocked after close (scheduler deadlock report); CloseProof.tla "
         "carries a TLAPS proof (42 obligations, re-checked) of close-unblocks for any number of threads; adapter "
         "histories (tokio, async-std): a task parked on poll_next is woken by close(), then the stream ends and "
         "stays ended (AsyncOps.tla)",
         "7.C11", "exhaustive schedule enumeration of real code + TLC trace validation"),
 "C12": ("model_checking",
         "forked probes run add_signal / raise / clone+drop handle / drop instance histories (numbers from every class: "
         "watched, valid, forbidden, OS-rejected, negative, >= 128; both exfiltrators) with an independent witness "
         "action, a leak sweep of the registry and the wait status; TLC validates each record against SignalsOps.tla "
         "(rejected add = no-op, later adds normal, never abort, drop unregisters exactly its own); scheduler scenarios "
         "with add_signal racing deliveries are validated against TraceIteratorAbs (mutex never poisoned); the instance and "
         "a handle dropped simultaneously on two real threads, thousands of times, must leave nothing registered; "
         "Delivery.tla (TLC) and DeliveryProof.tla (TLAPS, 32 obligations) for add_signal under the id table's lock",
         "7.C12", "history probes of real code + TLC trace validation against sequential TLA+ model"),
 "C13": ("model_checking",
         "forked probes with real pipes / stream / datagram sockets, blocking and not, empty / partly filled / completely "
         "full, bursts of deliveries (thorough: 70000), varying descriptor numbers: bytes read back, blocking caught by "
         "an alarm watchdog, F_GETFD and descriptor-number reuse after unregister, rejected registrations; TLC validates "
         "against TracePipe.tla and explores Pipe.tla with the wake method / O_NONBLOCK behaviour observed on the code; "
         "duplicates of one write end registered for two signals keep delivering after one registration is removed",
         "7.C13", "configuration probes of real code + TLC trace validation + TLA+ model with extracted parameters"),
 "C14": ("model_checking",
         "one forked probe per (13 entry points x signal numbers [quick: 18 representative, thorough: -2..130 and "
         "extremes] x fresh/used process): outcome class, sigaction(NULL) of all 64 signals before/after, drop counter of "
         "the captured state, Arc counts, descriptor validity, usability afterwards, wait status; TLC validates every "
         "record against RejectOps.Expected",
         "7.C14", "input-grid probes of real code + TLC trace validation against TLA+ function over the whole domain"),
 "C15": ("model_checking",
         "TLC explores Flag.tla for every arm/disarm/deliver history up to length 6 (thorough 8) in the four registration "
         "orders; forked probes execute histories with exit statuses and termination signals, an atexit marker tells "
         "_exit from exit; TLC validates status, marker and the flag values after every surviving delivery against "
         "FlagOps.Run; FlagSB.tla (over Mem.tla) states which store-buffering outcome the SeqCst accesses of the actions "
         "forbid and a timed litmus looks for it on the real actions (thousands of forked children)",
         "7.C15", "TLA+ model of histories + weak-memory TLA+ model + history probes and litmus on real code + TLC trace validation"),
 "C16": ("model_checking",
         "paired forked probes per signal number (own non-orphaned process group, no core dumps): the kernel's default "
         "action vs emulate_default_handler from normal context, with the signal masked, and from inside the signal's "
         "own action; TLC validates against Kernel.tla's table (itself validated by the native probes) and model-checks "
         "the emulation procedure of Default.tla with the DETAILS table observed on the code for all numbers x contexts",
         "7.C16", "kernel-as-oracle probes + TLC trace validation + TLA+ model with extracted table"),
 "C17": ("model_checking",
         "Origin::extract fed synthetic siginfo records for the (signal x si_code) grid with poisoned pid/uid bytes, and "
         "real deliveries by kill, raise, sigqueue, a child's kill, setitimer, POSIX timer, child exit / kill / stop "
         "through SignalsInfo<WithOrigin> with independently recorded ground truth; TLC validates against OriginOps.tla",
         "7.C17", "input-grid + mechanism probes of real code + TLC trace validation against TLA+ function"),
 "C18": ("model_checking",
         "TLC deadlock check and liveness (Termination, WriterProgress under weak fairness) on HalfLock.tla with the "
         "extracted constants; on real code every explored schedule must end with all threads done: deadlock "
         "(no runnable thread), livelock (a spinning writer that nobody can release) and a mutator wedged by an earlier "
         "panic (forbidden signal, panicking destructor while the writer mutex is held) are events that violate V_C18; a "
         "fair adversary (chain scenarios, one and two mutators) keeps a read section open at every instant and a "
         "recurring state in which no mutator ever loads a zero counter is reported as a lasso",
         "7.C18", "TLA+ liveness/deadlock checking + exhaustive schedules of real code + TLC trace validation"),
}

def main():
    props_list = [json.loads(l) for l in open(os.path.join(HERE, "properties.jsonl"))]
    hooks_commits = subprocess.run(
        ["git", "-C", "/repo", "log", "--format=%H %s"], stdout=subprocess.PIPE, text=True).stdout
    hook_shas = [l.split()[0] for l in hooks_commits.splitlines() if "verif hooks" in l]
    checks = []
    na = []
    extra_na = {}
    try:
        extra_na = json.load(open(os.path.join(HERE, "tools", "not_applicable.json")))
    except Exception:
        pass
    for p in props_list:
        pid = p["id"]
        if pid in CLAIMS and pid in props.CHECKS:
            level, text, ref, tech = CLAIMS[pid]
            checks.append({
                "property_id": pid,
                "quick_cmd": "./check %s --tier quick" % pid,
                "thorough_cmd": "./check %s --tier thorough" % pid,
                "evidence_file": "/verif/evidence/%s.json" % pid,
                "replay_cmd_template": "cat {path}  # the 'replay' field is the harness command that re-executes the schedule",
                "engine": "tlc+harness",
                "level_claimed": {"category": level, "text": text, "design_ref": "DESIGN.md section " + ref},
                "level_note": TB,
                "technique": tech,
            })
        else:
            na.append({"property_id": pid,
                       "reason": extra_na.get(pid, "check not built yet (work in progress; see DESIGN.md "
                                                   "section 7 for the planned decision)")})
    m = {
        "version": 1,
        "setup_cmd": "cd /verif/harness && (test -f Cargo.lock || cp /repo/Cargo.lock .) && cargo build --offline && cd /verif/harness_async && (test -f Cargo.lock || cp /repo/Cargo.lock .) && cargo build --offline",
        "hooks": {
            "guard": "sighook_verif",
            "enable": "rustflags --cfg sighook_verif (set in /verif/harness/.cargo/config.toml; the harness has path dependencies on /repo)",
            "baseline_off_cmd": "cd /repo && cargo test --workspace --no-fail-fast --offline",
            "source_commits": hook_shas,
            "add_only": True,
        },
        "engines": [
            {"name": "tlc+harness", "path": "/verif/check",
             "serves_properties": [c["property_id"] for c in checks],
             "kind_free_text": "TLA+ specs in /verif/spec checked by TLC; Rust harness in /verif/harness drives the real crates "
                               "under a deterministic scheduler and records NDJSON traces that TLC validates against the specs"},
        ],
        "checks": checks,
        "notes": "Every check rebuilds the harness from /repo's working tree (cargo build --offline) before running.",
        "not_applicable": na,
    }
    json.dump(m, open(os.path.join(HERE, "MANIFEST.json"), "w"), indent=1)
    print("claimed:", [c["property_id"] for c in checks])
    print("not yet:", [n["property_id"] for n in na])

if __name__ == "__main__":
    main()
