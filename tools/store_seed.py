#!/usr/bin/env python3
"""usage: store_seed.py <worktree> <Cxx> <status> <how> [suite demo_with demo_without]
copies <worktree>/seed_out into /verif/seeded/<Cxx>_agent2 and completes meta.json."""
import json, os, shutil, sys
wt, pid, status, how = sys.argv[1:5]
conf = sys.argv[5:8] if len(sys.argv) >= 8 else ["51 passed / 0 failed", "fails", "passes"]
dst = "/verif/seeded/%s_%s" % (pid, os.environ.get("AGENT", "agent2"))
if os.path.exists(dst):
    shutil.rmtree(dst)
shutil.copytree(os.path.join(wt, "seed_out"), dst)
mp = os.path.join(dst, "meta.json")
try:
    meta = json.load(open(mp))
except Exception:
    meta = {}
meta["property"] = pid
meta["origin"] = ("independent sub-agent (later round: told which changes had been tried, asked for "
                  "something different), only the property text and a scratch worktree")
meta["confirmed_by_me"] = {"suite_with_patch": conf[0], "demo_with_patch": conf[1], "demo_without_patch": conf[2]}
meta["detection"] = {"status": status, "how": how,
                     "command": "tools/run_mutant.sh /verif/seeded/%s_%s/patch.diff %s" % (pid, os.environ.get("AGENT", "agent2"), pid)}
json.dump(meta, open(mp, "w"), indent=1)
print("stored", dst)
