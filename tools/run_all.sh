#!/bin/bash
# Runs every claimed check (quick tier unless TIER is set); prints one summary line each.
cd "$(dirname "$0")/.."
mkdir -p work evidence
ids=$(python3 -c "import json;print(' '.join(c['property_id'] for c in json.load(open('MANIFEST.json'))['checks']))")
for c in ${@:-$ids}; do
  s=$(date +%s)
  ./check $c --tier ${TIER:-quick} > work/run_$c.log 2>&1
  rc=$?
  echo "$c rc=$rc $(( $(date +%s) - s ))s $(tail -1 work/run_$c.log | cut -c1-150)"
done
python3-vt - <<'P'
import json,jsonschema,glob
s=json.load(open('/root/.vp/EVIDENCE.schema.json'))
for f in sorted(glob.glob('evidence/*.json')):
    try:
        jsonschema.validate(json.load(open(f)),s); print(f,'valid')
    except Exception as e:
        print(f,'INVALID',str(e)[:200])
P
