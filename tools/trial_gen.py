#!/usr/bin/env python3
"""usage: trial_gen.py registry|iterator <first seed> <count> -- runs generated programs on the current tree
with every invariant of the monitor; prints the ones that do not pass (to find monitor false alarms)."""
import sys, os, json, time
sys.path.insert(0, "/verif/lib")
import common, genprog
from common import WORK, harness
comp, first, count = sys.argv[1], int(sys.argv[2]), int(sys.argv[3])
common.build_harness()
chk = common.Check("C00", "quick")
bad = 0
for seed in range(first, first + count):
    t0 = time.time()
    if comp == "registry":
        name, args = genprog.registry_program(seed)
        module, invs, consts = "TraceRegistryAbs.tla", ["V_C01", "V_C02", "V_C03", "V_C04", "V_C05", "V_C18", "V_Harness"], dict(HandlerBase=8, HandlerPerAct=1)
    else:
        name, args = genprog.iterator_program(seed)
        module, invs, consts = "TraceIteratorAbs.tla", ["V_C03", "V_C09", "V_C10", "V_C11", "V_C12"], dict(HandlerBase=8, HandlerPerAct=8 if "--raw" in args else 2)
    out = os.path.join(WORK, "trial_%s" % name)
    try:
        stats, _, _ = harness(comp, *args, "--out", out, "--max", 20000, "--fine-max", 0, timeout=600)
    except Exception as e:
        print(name, args, "HARNESS ERROR", str(e)[:300]); bad += 1; continue
    tv = common.validate_trace(module, out + ".abs.ndjson", "trial_" + name, constants=consts, invariants=invs)
    flags = ""
    if not tv.accepted:
        bad += 1
        import re
        try:
            o = open(os.path.join(WORK, "tlc_C00_trial_%s" % name, "out.txt")).read()
        except Exception:
            o = ""
        m = re.findall(r"/\\ viol = (\{[^}]*\})", o)
        flags = " ".join(m[-1].split()) if m else ""
        n = common.scenario_of_line(out + ".abs.ndjson", tv.rejected_at or 1)
        print("FAIL", name, " ".join(map(str, args)), "| run", n, tv.violation, flags, json.dumps(tv.rejected)[:200])
    else:
        print("ok  ", name, " ".join(map(str, args)), "| schedules", stats["schedules"], "exhausted", stats["exhausted"], "%.1fs" % (time.time() - t0))
print("bad:", bad)
