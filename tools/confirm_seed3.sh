#!/bin/bash
# usage: confirm_seed3.sh <worktree> <root|registry> "<extra cargo test flags>" <demo names without .rs>...
wt=$1; where=$2; flags=$3; shift 3
cd $wt || exit 2
git checkout -q -- . ; git apply seed_out/patch.diff || { echo "patch does not apply"; exit 2; }
touch build.rs
echo "--- suite with patch"; cargo test --workspace --no-fail-fast --offline 2>&1 | grep -E "^test result" | awk '{p+=$4; f+=$6} END {print "passed="p" failed="f}'
if [ $where = registry ]; then dir=signal-hook-registry/tests; mp="--manifest-path signal-hook-registry/Cargo.toml"; else dir=tests; mp=""; fi
run() { for d in "$@"; do cp seed_out/demo/$d.rs $dir/; timeout 900 cargo test --offline $mp $flags --test $d 2>&1 | grep -E "^test result|^test .*(FAILED|ok)$" | head -5; done; }
echo "--- demos WITH patch"; run "$@"
git apply -R seed_out/patch.diff; touch build.rs
echo "--- demos WITHOUT patch"; run "$@"
for d in "$@"; do rm -f $dir/$d.rs; done
git checkout -q -- . ; git status --short | head -3
