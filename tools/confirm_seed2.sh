#!/bin/bash
# usage: confirm_seed2.sh <worktree> <features or -> <kind: test|example> <demo names without .rs>...
wt=$1; feat=$2; kind=$3; shift 3
cd $wt || exit 2
F=""; [ "$feat" != "-" ] && F="--features $feat"
git checkout -q -- . ; git apply seed_out/patch.diff || { echo "patch does not apply"; exit 2; }
touch build.rs
echo "--- suite with patch"; cargo test --workspace --no-fail-fast --offline 2>&1 | grep -E "^test result" | awk '{p+=$4; f+=$6} END {print "passed="p" failed="f}'
run() { for d in "$@"; do
  if [ $kind = example ]; then cp seed_out/demo/$d.rs examples/; timeout 600 cargo run --offline $F --example $d 2>&1 | grep -E "PASS|FAIL|mismatch|exit" | tail -2; echo "exit=$?";
  else cp seed_out/demo/$d.rs tests/; timeout 900 cargo test --offline $F --test $d 2>&1 | grep -E "^test result|^test .*(FAILED|ok)$" | head -5; fi; done; }
echo "--- demos WITH patch"; run "$@"
git apply -R seed_out/patch.diff; touch build.rs
echo "--- demos WITHOUT patch"; run "$@"
for d in "$@"; do rm -f tests/$d.rs examples/$d.rs; done
git checkout -q -- . ; git status --short | head -3
