#!/bin/bash
# Runs every claimed check of the quick tier, N at a time (default 4): one build of the harnesses first,
# then `./check <id> --no-build`. Evidence files are written by the checks themselves.
cd "$(dirname "$0")/.."
mkdir -p work evidence
N=${1:-4}
ids=$(python3 -c "import json;print(' '.join(c['property_id'] for c in json.load(open('MANIFEST.json'))['checks']))")
python3 -c "
import sys; sys.path.insert(0,'lib'); import common, p_async
print('harness built in %.1fs' % common.build_harness()); print('harness_async built in %.1fs' % p_async.build())"
run_one() {
  c=$1; s=$(date +%s)
  ./check $c --tier ${TIER:-quick} --no-build > work/run_$c.log 2>&1
  rc=$?
  echo "$c rc=$rc $(( $(date +%s) - s ))s $(tail -1 work/run_$c.log | cut -c1-150)"
}
export -f run_one
echo $ids | tr ' ' '\n' | xargs -P $N -I{} bash -c 'run_one {}'
python3-vt - <<'P'
import json,jsonschema,glob
s=json.load(open('/root/.vp/EVIDENCE.schema.json'))
for f in sorted(glob.glob('evidence/*.json')):
    try:
        jsonschema.validate(json.load(open(f)),s); print(f,'valid')
    except Exception as e:
        print(f,'INVALID',str(e)[:200])
P
