#!/bin/bash
# usage: run_mutant.sh <patch.diff> <check id>...   -- applies the patch to /repo, runs the checks, reverts.
set -u
patch=$1; shift
cd /repo || exit 2
if [ -n "$(git status --porcelain --untracked-files=no)" ]; then echo "/repo not clean"; exit 2; fi
git apply "$patch" || { echo "patch does not apply"; exit 2; }
trap 'git -C /repo checkout -- . ' EXIT
if [ "${RUN_TESTS:-0}" = 1 ]; then
  (cd /repo && cargo test --workspace --no-fail-fast --offline 2>&1 | grep -E "^test result|FAILED|panicked" | sort | uniq -c | head -8)
fi
for c in "$@"; do
  (cd /verif && ./check $c --tier ${TIER:-quick} 2>&1 | grep -E "VIOLATION|KNOWN|NOTE|TOOL ERROR|holds on|VIOLATED|REJECTED|^  [a-z]" | cut -c1-260; echo "  -> $c exit ${PIPESTATUS[0]}")
done
