//! Probes of the runtime adapters of signal-hook (signal-hook-tokio, signal-hook-async-std,
//! signal-hook-mio v0.7 / v0.8 / v1.0), built from /repo's working tree and driven through their
//! public API only.
//!
//! usage: sighook-verif-async --scripts "P,R10,T,P;P,C,T,P" [--adapters tokio,asyncstd,mio10,mio08,mio07]
//!
//! One forked child per (adapter, script). Script operations (initially SIGUSR1=10 and SIGUSR2=12 are
//! watched):
//!   P      poll_next with a counting waker          -> res = pending | sig (n = number) | none
//!   B      mio: Signals::pending() collected         -> res = batch, sigs = [..]
//!   R<n>   raise(n) on this thread (delivered before raise returns)
//!   r<n>   raise(n) on a helper thread that is joined
//!   C      handle.close()                            (stream adapters)
//!   A<n>   add_signal(n)
//!   T      let the reactor run (tokio: block_on(sleep); async-std: its reactor thread; mio: Poll::poll)
//!          -> n = wakes of the waker handed to the last P / readable events for the token
//! Output: NDJSON, one `reset` line per child, one `op` line per operation, one `end` line with the
//! wait status. The records are validated by TLC against spec/TraceAsync.tla (AsyncOps.tla).

use std::io::Write as _;
use std::os::unix::io::FromRawFd;
use std::pin::Pin;
use std::sync::atomic::{AtomicUsize, Ordering};
use std::sync::Arc;
use std::task::{Context, Poll, Wake, Waker};
use std::time::Duration;

use futures_core::Stream;

struct CountWaker(AtomicUsize);
impl Wake for CountWaker {
    fn wake(self: Arc<Self>) {
        self.0.fetch_add(1, Ordering::SeqCst);
    }
    fn wake_by_ref(self: &Arc<Self>) {
        self.0.fetch_add(1, Ordering::SeqCst);
    }
}

struct Out(std::fs::File);
impl Out {
    fn op(&mut self, op: &str, arg: i64, res: &str, n: i64, sigs: &[i32]) {
        let l: Vec<String> = sigs.iter().map(|s| s.to_string()).collect();
        let _ = writeln!(
            self.0,
            "{{\"e\":\"op\",\"op\":\"{}\",\"arg\":{},\"res\":\"{}\",\"n\":{},\"sigs\":[{}]}}",
            op,
            arg,
            res,
            n,
            l.join(",")
        );
    }
}

fn raise(sig: i32, helper: bool) {
    if helper {
        std::thread::spawn(move || unsafe {
            libc::raise(sig);
        })
        .join()
        .unwrap();
    } else {
        unsafe {
            libc::raise(sig);
        }
    }
}

fn parse(tok: &str) -> (char, i64) {
    let c = tok.chars().next().unwrap();
    let a = tok[1..].parse::<i64>().unwrap_or(0);
    (c, a)
}

fn poll_res<T: Into<i64>>(p: Poll<Option<T>>) -> (&'static str, i64) {
    match p {
        Poll::Pending => ("pending", 0),
        Poll::Ready(None) => ("none", 0),
        Poll::Ready(Some(s)) => ("sig", s.into()),
    }
}

/// The two stream adapters share everything but the construction and the way the reactor runs.
fn run_stream<S, F>(mut s: S, handle: signal_hook_tokio::Handle, script: &[&str], out: &mut Out, mut turn: F)
where
    S: Stream<Item = libc::c_int> + Unpin,
    F: FnMut(&dyn Fn() -> bool),
{
    let cw = Arc::new(CountWaker(AtomicUsize::new(0)));
    let waker = Waker::from(cw.clone());
    let mut seen = 0usize;
    for tok in script {
        let (c, a) = parse(tok);
        match c {
            'P' => {
                let r = std::panic::catch_unwind(std::panic::AssertUnwindSafe(|| {
                    let mut cx = Context::from_waker(&waker);
                    Pin::new(&mut s).poll_next(&mut cx)
                }));
                match r {
                    Ok(p) => {
                        let (res, n) = poll_res(p);
                        out.op("P", 0, res, n, &[]);
                    }
                    Err(_) => out.op("P", 0, "panic", 0, &[]),
                }
            }
            'R' | 'r' => {
                raise(a as i32, c == 'r');
                out.op("R", a, "ok", 0, &[]);
            }
            'C' => {
                handle.close();
                out.op("C", 0, "ok", 0, &[]);
            }
            'A' => {
                let r = std::panic::catch_unwind(std::panic::AssertUnwindSafe(|| handle.add_signal(a as i32)));
                let res = match r {
                    Ok(Ok(())) => "ok",
                    Ok(Err(_)) => "err",
                    Err(_) => "panic",
                };
                out.op("A", a, res, 0, &[]);
            }
            'T' => {
                let cwc = cw.clone();
                let before = seen;
                turn(&move || cwc.0.load(Ordering::SeqCst) > before);
                let now = cw.0.load(Ordering::SeqCst);
                out.op("T", 0, "turn", (now - seen) as i64, &[]);
                seen = now;
            }
            _ => panic!("unknown op {}", tok),
        }
    }
}

fn tokio_probe(script: &[&str], out: &mut Out) {
    let rt = tokio::runtime::Builder::new_current_thread().enable_all().build().unwrap();
    let _g = rt.enter();
    let s = signal_hook_tokio::Signals::new(&[10, 12]).unwrap();
    let h = s.handle();
    run_stream(s, h, script, out, |woken| {
        for _ in 0..60 {
            rt.block_on(async { tokio::time::sleep(Duration::from_millis(5)).await });
            if woken() {
                break;
            }
        }
    });
}

fn asyncstd_probe(script: &[&str], out: &mut Out) {
    let s = signal_hook_async_std::Signals::new(&[10, 12]).unwrap();
    let h = s.handle();
    run_stream(s, h, script, out, |woken| {
        // async-io drives its reactor on its own thread while nobody blocks on a future
        for _ in 0..100 {
            std::thread::sleep(Duration::from_millis(5));
            if woken() {
                break;
            }
        }
    });
}

macro_rules! mio_probe {
    ($name:ident, $mio:ident, $ver:ident) => {
        fn $name(script: &[&str], out: &mut Out) {
            use $mio::{Events, Interest, Poll, Token};
            let mut poll = Poll::new().unwrap();
            let mut s = signal_hook_mio::$ver::Signals::new(&[10, 12]).unwrap();
            poll.registry().register(&mut s, Token(7), Interest::READABLE).unwrap();
            let mut events = Events::with_capacity(16);
            for tok in script {
                let (c, a) = parse(tok);
                match c {
                    'B' => {
                        let r = std::panic::catch_unwind(std::panic::AssertUnwindSafe(|| {
                            s.pending().collect::<Vec<libc::c_int>>()
                        }));
                        match r {
                            Ok(v) => out.op("B", 0, "batch", v.len() as i64, &v),
                            Err(_) => out.op("B", 0, "panic", 0, &[]),
                        }
                    }
                    'R' | 'r' => {
                        raise(a as i32, c == 'r');
                        out.op("R", a, "ok", 0, &[]);
                    }
                    'A' => {
                        let r = std::panic::catch_unwind(std::panic::AssertUnwindSafe(|| s.add_signal(a as i32)));
                        let res = match r {
                            Ok(Ok(())) => "ok",
                            Ok(Err(_)) => "err",
                            Err(_) => "panic",
                        };
                        out.op("A", a, res, 0, &[]);
                    }
                    'T' => {
                        let mut n = 0;
                        loop {
                            match poll.poll(&mut events, Some(Duration::from_millis(150))) {
                                Ok(()) => {
                                    n = events.iter().filter(|e| e.token() == Token(7) && e.is_readable()).count();
                                    break;
                                }
                                Err(e) if e.kind() == std::io::ErrorKind::Interrupted => continue,
                                Err(e) => panic!("poll: {}", e),
                            }
                        }
                        out.op("T", 0, "turn", n as i64, &[]);
                    }
                    _ => panic!("unknown op {} for mio", tok),
                }
            }
        }
    };
}
mio_probe!(mio10_probe, mio_1_0, v1_0);
mio_probe!(mio08_probe, mio_0_8, v0_8);
mio_probe!(mio07_probe, mio_0_7, v0_7);

fn status_string(st: libc::c_int) -> String {
    if libc::WIFEXITED(st) {
        format!("exited:{}", libc::WEXITSTATUS(st))
    } else if libc::WIFSIGNALED(st) {
        format!("signaled:{}", libc::WTERMSIG(st))
    } else {
        format!("other:{}", st)
    }
}

fn main() {
    let args: Vec<String> = std::env::args().collect();
    let get = |k: &str, d: &str| -> String {
        args.iter().position(|a| a == k).and_then(|i| args.get(i + 1)).cloned().unwrap_or_else(|| d.to_string())
    };
    let scripts = get("--scripts", "P,R10,T,P");
    let adapters = get("--adapters", "tokio,asyncstd,mio10,mio08,mio07");
    let stdout = std::io::stdout();
    for adapter in adapters.split(',') {
        let is_mio = adapter.starts_with("mio");
        for script in scripts.split(';') {
            // stream adapters poll (P) and close (C); mio collects batches (B)
            let toks: Vec<String> = script
                .split(',')
                .filter(|t| !t.is_empty())
                .filter(|t| !(is_mio && t.starts_with('C')))
                .map(|t| if is_mio && t == "P" { "B".to_string() } else { t.to_string() })
                .collect();
            let toks_ref: Vec<&str> = toks.iter().map(|s| s.as_str()).collect();
            let mut fds = [0i32; 2];
            unsafe { libc::pipe(fds.as_mut_ptr()) };
            let pid = unsafe { libc::fork() };
            if pid == 0 {
                unsafe {
                    libc::close(fds[0]);
                    // a signal nobody watches must not kill the probe; a hang must
                    libc::signal(1, libc::SIG_IGN);
                    libc::signal(28, libc::SIG_IGN);
                    libc::alarm(8);
                }
                let mut out = Out(unsafe { std::fs::File::from_raw_fd(fds[1]) });
                std::panic::set_hook(Box::new(|_| {}));
                match adapter {
                    "tokio" => tokio_probe(&toks_ref, &mut out),
                    "asyncstd" => asyncstd_probe(&toks_ref, &mut out),
                    "mio10" => mio10_probe(&toks_ref, &mut out),
                    "mio08" => mio08_probe(&toks_ref, &mut out),
                    "mio07" => mio07_probe(&toks_ref, &mut out),
                    _ => panic!("unknown adapter"),
                }
                drop(out);
                unsafe { libc::_exit(0) };
            }
            unsafe { libc::close(fds[1]) };
            let mut f = unsafe { std::fs::File::from_raw_fd(fds[0]) };
            let mut buf = String::new();
            let _ = std::io::Read::read_to_string(&mut f, &mut buf);
            let mut st = 0;
            unsafe { libc::waitpid(pid, &mut st, 0) };
            let mut o = stdout.lock();
            let _ = writeln!(o, "{{\"e\":\"reset\",\"adapter\":\"{}\",\"script\":\"{}\"}}", adapter, toks.join(","));
            let _ = o.write_all(buf.as_bytes());
            let _ = writeln!(o, "{{\"e\":\"end\",\"status\":\"{}\"}}", status_string(st));
        }
    }
}
