"""./check selftest — demonstrates that the specifications are bound to the code: a recorded real
trace is accepted as it is, and rejected once a single logged field is corrupted or a single hook
event is removed; flipping one extracted constant makes TLC find the counterexample."""
import json
import os

from common import WORK, harness, validate_trace, log
from tlcrun import cfg_text, run_tlc


def _mutate(src, dst, fn):
    lines = open(src).read().splitlines()
    out = fn([json.loads(l) for l in lines])
    with open(dst, "w") as f:
        for r in out:
            f.write(json.dumps(r, separators=(",", ":")) + "\n")


def run():
    results = []

    def expect(name, ok, detail=""):
        results.append((name, ok))
        log("  %-70s %s %s" % (name, "ok" if ok else "FAILED", detail))

    # ---- half-lock: abstract trace ------------------------------------------------------
    out = os.path.join(WORK, "self_hl")
    harness("halflock", "--readers", 1, "--writers", 1, "--stores", 1, "--out", out)
    absf, finef = out + ".abs.ndjson", out + ".fine.ndjson"
    tv = validate_trace("TraceHalfLockAbs.tla", absf, "self_hl_abs", invariants=["NoHeldFreed", "EndQuiescent"])
    expect("half-lock abstract trace accepted", tv.accepted)

    def drop_first(kind):
        def f(recs):
            done = False
            out = []
            for r in recs:
                if not done and r["e"] == kind:
                    done = True
                    continue
                out.append(r)
            return out
        return f
    _mutate(absf, absf + ".noclose", drop_first("close"))
    tv = validate_trace("TraceHalfLockAbs.tla", absf + ".noclose", "self_hl_abs2",
                        invariants=["NoHeldFreed", "EndQuiescent"])
    expect("... with one `close` hook event removed: rejected", not tv.accepted,
           "at %s" % (tv.rejected or tv.violation))

    def free_current(recs):
        for r in recs:
            if r["e"] == "free":
                r["s"] = 2
                break
        return recs
    _mutate(absf, absf + ".badfree", free_current)
    tv = validate_trace("TraceHalfLockAbs.tla", absf + ".badfree", "self_hl_abs3",
                        invariants=["NoHeldFreed", "EndQuiescent"])
    expect("... with one `free` event naming the current snapshot: rejected", not tv.accepted,
           "at %s" % (tv.rejected or tv.violation))

    # ---- half-lock: fine trace ---------------------------------------------------------------
    sc = "SeqCst"
    consts = dict(Readers={1}, Writers={2}, Sections=1, Stores=1, DeliverOn={1, 2}, MaxNested=2,
                  MaxDeliveries=100, ReadOrder="count_then_ptr", Barrier="both", Sticky=True, Publish="swap",
                  OrdRGen=sc, OrdRInc=sc, OrdRPtr=sc, OrdRDec=sc, OrdWPtr=sc, OrdWSwap=sc,
                  OrdWSeen=sc, OrdWFlip=sc)
    tv = validate_trace("TraceHalfLock.tla", finef, "self_hl_fine", constants=consts,
                        invariants=["NoUseAfterFree"])
    expect("half-lock fine trace accepted (every shim op is the next spec action)", tv.accepted)

    def wrong_value(recs):
        for r in recs:
            if r["e"] == "op" and r.get("k") == "fetch_add" and r.get("l", "").startswith("lock"):
                r["old"] += 1
                break
        return recs
    _mutate(finef, finef + ".bad", wrong_value)
    tv = validate_trace("TraceHalfLock.tla", finef + ".bad", "self_hl_fine2", constants=consts,
                        invariants=["NoUseAfterFree"])
    expect("... with one logged counter value corrupted: rejected", not tv.accepted)

    def wrong_order(recs):
        for r in recs:
            if r["e"] == "op" and r.get("k") == "load" and r.get("l") == "data":
                r["o"] = "Acquire"
                break
        return recs
    _mutate(finef, finef + ".ord", wrong_order)
    tv = validate_trace("TraceHalfLock.tla", finef + ".ord", "self_hl_fine3", constants=consts,
                        invariants=["NoUseAfterFree"])
    expect("... with one logged ordering differing from the extracted table: rejected", not tv.accepted)

    # ---- channel -----------------------------------------------------------------------------
    out = os.path.join(WORK, "self_ch")
    harness("channel", "--senders", 1, "--sends", 2, "--receivers", 1, "--recvs", 2, "--out", out,
            "--fine-max", 50)
    absf = out + ".abs.ndjson"
    cc = dict(SLOTS=5, StepBound=6, CheckDrops=True)
    tv = validate_trace("TraceChannelAbs.tla", absf, "self_ch_abs", constants=cc,
                        invariants=["SlotsBounded"], constraints=["Mark"])
    expect("channel abstract traces accepted (TLC places the linearisation points)", tv.accepted)

    def swap_value(recs):
        for r in recs:
            if r["e"] == "ret_recv" and r["v"] == 1:
                r["v"] = 2
                break
        return recs
    _mutate(absf, absf + ".bad", swap_value)
    tv = validate_trace("TraceChannelAbs.tla", absf + ".bad", "self_ch_abs2", constants=cc,
                        invariants=["SlotsBounded"], constraints=["Mark"])
    expect("... with one received value changed: rejected (no linearisation explains it)",
           not tv.accepted)
    _mutate(absf, absf + ".nodrop", drop_first("drop"))
    tv = validate_trace("TraceChannelAbs.tla", absf + ".nodrop", "self_ch_abs3", constants=cc,
                        invariants=["SlotsBounded"], constraints=["Mark"])
    expect("... with one destructor event removed: rejected (value never released)", not tv.accepted)

    # ---- registry monitor --------------------------------------------------------------------
    out = os.path.join(WORK, "self_rg")
    harness("registry", "--threads", "U1;D10", "--pre", "R10:1,R10:2", "--preempt", 2, "--out", out,
            "--fine-max", 0)
    absf = out + ".abs.ndjson"
    rc = dict(HandlerBase=8, HandlerPerAct=1)
    tv = validate_trace("TraceRegistryAbs.tla", absf, "self_rg", constants=rc,
                        invariants=["V_C01", "V_C02", "V_C05"])
    expect("registry traces accepted by the monitor", tv.accepted)
    _mutate(absf, absf + ".nodrop", drop_first("act_drop"))
    tv = validate_trace("TraceRegistryAbs.tla", absf + ".nodrop", "self_rg2", constants=rc,
                        invariants=["V_C01"])
    expect("... with the removed action's release event deleted: V_C01 violated",
           tv.violation == "V_C01")

    def unreg_false(recs):
        for r in recs:
            if r["e"] == "ret_unreg":
                r["res"] = 0
                break
        return recs
    _mutate(absf, absf + ".res", unreg_false)
    tv = validate_trace("TraceRegistryAbs.tla", absf + ".res", "self_rg3", constants=rc,
                        invariants=["V_C05"])
    expect("... with one unregister result flipped: V_C05 violated", tv.violation == "V_C05")

    # ---- variant constants -------------------------------------------------------------------
    c = dict(consts)
    c.update(dict(Readers={1}, Writers={2}, Stores=2, DeliverOn={2}, MaxNested=1, MaxDeliveries=1,
                  Barrier="none"))
    r = run_tlc("HalfLock.tla", cfg_text(c, ["NoUseAfterFree"]), "self_variant", workers=4, timeout=300)
    expect("HalfLock.tla with Barrier flipped to `none`: TLC finds a use-after-free",
           r.violation == "NoUseAfterFree")
    c["Barrier"] = "both"
    c["OrdRInc"] = "Acquire"
    r = run_tlc("HalfLock.tla", cfg_text(c, ["NoUseAfterFree"]), "self_variant2", workers=4, timeout=300)
    expect("HalfLock.tla with the reader's fetch_add downgraded to Acquire: use-after-free",
           r.violation == "NoUseAfterFree")

    # ---- runtime adapters: recorded histories against the monitor of AsyncOps.tla -------------------
    import subprocess
    import p_async
    p_async.build()
    af = os.path.join(WORK, "self_async.ndjson")
    with open(af, "w") as f:
        subprocess.run([p_async.ASYNC_BIN, "--scripts", "P,R10,T,P,P,C,T,P", "--adapters", "tokio,mio10"],
                       stdout=f, check=True)
    ac = {"Sigs": {1, 10, 12}, "Watched0": {10, 12}, "MaxOps": 0, "CbArms": True, "TryFirst": True}
    tv = validate_trace("TraceAsync.tla", af, "self_async", constants=ac, invariants=["V_C09", "V_C10", "V_C11"])
    expect("adapter histories (tokio, mio) accepted by the monitor of AsyncOps.tla", tv.accepted)

    def no_wake(recs):
        for r in recs:
            if r["e"] == "op" and r["op"] == "T" and r["n"] > 0:
                r["n"] = 0
                break
        return recs
    _mutate(af, af + ".nowake", no_wake)
    tv = validate_trace("TraceAsync.tla", af + ".nowake", "self_async2", constants=ac, invariants=["V_C09"])
    expect("... with the waker's wake-up after a delivery removed: V_C09 violated", tv.violation == "V_C09")

    def pending_after_close(recs):
        seen_c = False
        for r in recs:
            if r["e"] == "op" and r["op"] == "C":
                seen_c = True
            if seen_c and r["e"] == "op" and r["op"] == "P" and r["res"] == "none":
                r["res"] = "pending"
                break
        return recs
    _mutate(af, af + ".pend", pending_after_close)
    tv = validate_trace("TraceAsync.tla", af + ".pend", "self_async3", constants=ac, invariants=["V_C11"])
    expect("... with the poll after close() answering Pending: V_C11 violated", tv.violation == "V_C11")
    # ---- instruction-boundary deliveries ----------------------------------------------------------------
    sf = os.path.join(WORK, "self_step.ndjson")
    with open(sf, "w") as f:
        f.write(json.dumps({"e": "step", "op": "unregister", "stride": 1, "status": "exited:0",
                            "r": {"nsteps": 3772, "forks": 3772, "hung": 1, "died": 0, "tokens": [],
                                  "steps": [["ok", 3771, 0]]}}) + "\n")
    tv = validate_trace("TraceStep.tla", sf, "self_step", invariants=["V_C03"])
    expect("a step record with one delivery that never returned: V_C03 violated", tv.violation == "V_C03")
    # ---- Delivery.tla and the inductive invariant -------------------------------------------------------
    script = ('@[t \\in {1,2} |-> IF t = 1 THEN <<<<"add",12>>, <<"drop">>>> ELSE <<<<"add",12>>, <<"drop">>>>]')
    r = run_tlc("Delivery.tla", cfg_text(dict(Threads={1, 2}, Script=script, Sigs={12}, AddAtomic=False,
                                              LastOwner="arc"), ["NoDoubleRegistration"]),
                "self_delivery", workers=2, timeout=120)
    expect("Delivery.tla with the id table's lock released between look-up and recording: double registration",
           r.violation == "NoDoubleRegistration")
    import shutil
    if shutil.which("apalache-mc"):
        import inductive

        class _C:
            pid = "selftest"
            extra = {}
            notes = []

            def note(self, m):
                self.notes.append(m)
        cc = _C()
        inductive.halflock_induction(cc, dict(ReadOrder="ptr_then_count", Barrier="both", Sticky=True, Publish="swap"))
        expect("HalfLockSC.tla with the pointer loaded before the count: the induction fails (Apalache)",
               any("not inductive" in n for n in cc.notes))
        cc2 = _C()
        cc2.notes = []
        cc2.extra = {}
        inductive.halflock_induction(cc2, dict(ReadOrder="count_then_ptr", Barrier="both", Sticky=True, Publish="swap"))
        expect("HalfLockSC.tla as the code is: IndInv is inductive and its hypothesis satisfiable (Apalache)",
               cc2.extra.get("inductive_invariant", [{}])[-1].get("holds") is True)

    if shutil.which("tlapm"):
        import re
        from tlcrun import SPEC
        d = os.path.join(WORK, "self_tlaps")
        shutil.rmtree(d, ignore_errors=True)
        os.makedirs(d)
        src = open(os.path.join(SPEC, "HalfLockProof.tla")).read()
        bad_src = src.replace("MODULE HalfLockProof", "MODULE HalfLockBad").replace(
            "See(s) == seen' = [seen EXCEPT ![s] = @ \\/ inn[s] = {}]", "See(s) == seen' = [seen EXCEPT ![s] = TRUE]")
        assert bad_src != src.replace("MODULE HalfLockProof", "MODULE HalfLockBad")
        with open(os.path.join(d, "HalfLockBad.tla"), "w") as f:
            f.write(bad_src)
        p = subprocess.run(["timeout", "600", "tlapm", "--threads", "8", "HalfLockBad.tla"], cwd=d,
                           stdout=subprocess.PIPE, stderr=subprocess.STDOUT, text=True, errors="replace")
        m = re.search(r"(\d+)/(\d+) obligations failed", p.stdout)
        expect("HalfLockProof.tla with a barrier that does not wait: TLAPS cannot prove the step", bool(m),
               m.group(0) if m else "")

    bad = [n for n, ok in results if not ok]
    log("selftest: %d/%d demonstrations behaved as required" % (len(results) - len(bad), len(results)))
    return 0 if not bad else 2
