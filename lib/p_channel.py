"""C06 / C07 / C08: the signal-safe channel. Parameter extraction (orderings, SLOTS, BITS), fine model
checking over Mem.tla with the extracted constants, exhaustive small-scope schedules of the real
Channel<T> validated against ChannelAbs (linearisability oracle) and Channel.tla (fine)."""
import json
import os

from common import WORK, ToolError, harness, scenario_of_line, write_replay

_STRENGTH = {"Relaxed": 0, "Acquire": 1, "Release": 1, "AcqRel": 2, "SeqCst": 3}


def extract_params():
    sig, _, _ = harness("channel", "--signature")
    stale = []
    c = dict(SLOTS=5, BITS=3)
    for site in ("SDeq", "SEnq", "RDeq", "REnq"):
        c["Ord%sLoad" % site] = "Relaxed"
        c["Ord%sOk" % site] = "Acquire" if site.endswith("Deq") else "Release"
        c["Ord%sFail" % site] = "Relaxed"
    send, recv = sig["send"], sig["recv"]
    want_s = [("load", "empty"), ("cas_weak", "empty"), ("load", "full"), ("cas_weak", "full")]
    want_r = [("load", "full"), ("cas_weak", "full"), ("load", "empty"), ("cas_weak", "empty")]
    if [(k, l) for k, l, _, _ in send] != want_s:
        stale.append("send(): unmodelled step shape %s" % [(k, l) for k, l, _, _ in send])
    if [(k, l) for k, l, _, _ in recv] != want_r:
        stale.append("recv(): unmodelled step shape %s" % [(k, l) for k, l, _, _ in recv])
    if not stale:
        # one set of orderings per call site: send = dequeue(empty), enqueue(full);
        # recv = dequeue(full), enqueue(empty)
        for site, steps, base in (("SDeq", send, 0), ("SEnq", send, 2), ("RDeq", recv, 0), ("REnq", recv, 2)):
            c["Ord%sLoad" % site] = steps[base][2]
            c["Ord%sOk" % site] = steps[base + 1][2]
            c["Ord%sFail" % site] = steps[base + 1][3]
    words = sig["words"]
    e0 = words[0][0]
    # BITS: full word after two sends is idx1 + idx2 << BITS
    f2 = words[2][1]
    bits = None
    for b in range(1, 8):
        if f2 == 1 + (2 << b):
            bits = b
    slots = None
    if bits:
        n, k = e0, 0
        while n:
            if n & ((1 << bits) - 1):
                k += 1
            n >>= bits
        slots = k
        expect = sum((i + 1) << (bits * i) for i in range(slots))
        if expect != e0:
            stale.append("initial empty word %d is not Pack(1..%d) with %d bits" % (e0, slots, bits))
    if not bits or not slots:
        stale.append("cannot derive SLOTS/BITS from raw words %s" % words)
    else:
        c["SLOTS"], c["BITS"] = slots, bits
    return c, stale, sig


CH_ACTIONS = ["Q_Load", "S_Start", "S_DeqOk", "S_DeqFail", "S_Write", "S_EnqOk", "S_EnqFail",
              "R_Empty", "R_DeqOk", "R_DeqFail", "R_Take", "R_EnqOk", "R_EnqFail", "Deliver"]

# Which invariant of Channel.tla belongs to which property.
INV_OF = {
    "C06": ["Fifo", "CellsAgree", "QueuesContiguous", "NoOverwrite"],
    "C07": ["NoRace", "NoDoubleDrop", "FatesFinal"],
    "C08": ["NoPanic", "IndexPartition", "FrozenBounded", "FrozenNeverBlocked"],
}
PROP_OF_INV = {i: p for p, invs in INV_OF.items() for i in invs}


def classify_abs(tv, bound):
    """Which property a rejected abstract event speaks about."""
    r = tv.rejected
    if tv.violation and not isinstance(r, dict):
        return "C06"
    if not isinstance(r, dict):
        return "C06"
    e = r.get("e")
    if e in ("panic", "deadlock", "livelock", "aborted"):
        return "C08"
    if e in ("ret_send", "ret_recv") and r.get("solo", 0) > bound:
        return "C08"
    if e in ("drop", "chan_drop"):
        return "C07"
    return "C06"


def own_monitor(chk, module, inv, mconsts, name, args, abs_path, scheds, max_viol=3):
    """TraceChannelCells.tla over the whole file; a violating run is reported, cut out, and the
    validation resumes behind it."""
    from common import scenario_of_line, strip_runs_through
    import re
    path = abs_path
    for rnd in range(max_viol):
        nm = "own_%s%s" % (name, "" if rnd == 0 else "_r%d" % rnd)
        tv = chk.trace_validate(module, path, nm, constants=mconsts, invariants=[inv])
        if tv.accepted:
            chk.trace_events += tv.lines
            return
        if not tv.violation:
            raise ToolError("%s could not follow %s" % (module, json.dumps(tv.rejected)))
        at = tv.rejected_at or 1
        n = scenario_of_line(path, at)
        flags = ""
        try:
            out = open(os.path.join(WORK, "tlc_%s_%s" % (chk.pid, nm), "out.txt")).read()
            m = re.findall(r"/\\ viol = (\{[^}]*\})", out)
            flags = " ".join(m[-1].split()) if m else ""
        except Exception:
            pass
        sched = scheds[n] if n is not None and 0 <= n < len(scheds) else ""
        try:
            with open(path) as f:
                tv.rejected = json.loads(f.read().splitlines()[at - 1])
        except Exception:
            pass
        rp = write_replay(chk.pid, "channel_own_%s_%s" % (name, n), {
            "property": chk.pid, "kind": "real_execution_violates_" + module[:-4],
            "component": "channel", "harness_args": [str(a) for a in args], "schedule": sched,
            "flags": flags, "at_event": tv.rejected,
            "replay": "harness channel %s --replay '%s'" % (" ".join(map(str, args)), sched)})
        chk.violation("channel scenario %s run %s: %s %s at %s" % (name, n, tv.violation, flags,
                                                                   json.dumps(tv.rejected)), rp)
        nxt = "%s.own%d" % (abs_path, rnd + 1)
        if strip_runs_through(path, at, nxt) <= 1:
            return
        path = nxt
    chk.exhaustive = False


def mc_configs(tier, slots):
    base = dict(Prefill=0, DeliverOn=set(), MaxNested=0, MaxDeliveries=0, MaxSpurious=0,
                StaleFail=True, Freeze=False)

    def cfg(what, tmo, **kw):
        c = dict(base)
        c.update(kw)
        return (what, c, tmo)
    q = [
        cfg("weak memory: 2 senders x 1, 1 receiver x 3, channel pre-filled with SLOTS-1 values, "
            "1 spurious failure", 300, Senders={1, 2}, Receivers={3}, Sends=1, Recvs=3,
            Prefill=slots - 1, MaxSpurious=1),
        cfg("weak memory: 1 sender x 2, 1 receiver x 2, a send nested on either thread, "
            "1 spurious failure", 300, Senders={1}, Receivers={2}, Sends=2, Recvs=2,
            DeliverOn={1, 2}, MaxNested=1, MaxDeliveries=1, MaxSpurious=1),
        cfg("freeze mode (C08): 1 sender x 2, 1 receiver x 2, nested send, pre-filled 1, "
            "1 spurious failure; failed CAS returns the latest value", 400,
            Senders={1}, Receivers={2}, Sends=2, Recvs=2, DeliverOn={1, 2}, MaxNested=1,
            MaxDeliveries=1, MaxSpurious=1, StaleFail=False, Freeze=True, Prefill=1),
        cfg("freeze mode (C08): full channel, 2 senders x 1, 1 receiver x 1, nested send", 400,
            Senders={1, 2}, Receivers={3}, Sends=1, Recvs=1, DeliverOn={3}, MaxNested=1,
            MaxDeliveries=1, MaxSpurious=0, StaleFail=False, Freeze=True, Prefill=slots),
    ]
    if tier == "thorough":
        q += [
            cfg("weak memory: 2 senders x 2, 1 receiver x 3", 1500, Senders={1, 2}, Receivers={3},
                Sends=2, Recvs=3),
            # the next two do not finish (> 60 M distinct states in 40 min): random simulation
            # SLOTS+1 senders: the state with both queue words 0 (every index in flight) is reachable
            cfg("SIM all indices in flight: SLOTS+1 senders x 1", 300,
                Senders=set(range(1, slots + 2)), Receivers=set(), Sends=1, Recvs=1, StaleFail=False),
            cfg("SIM weak memory MPMC: 2 senders x 2, 2 receivers x 2, pre-filled 2", 480,
                Senders={1, 2}, Receivers={3, 4}, Sends=2, Recvs=2, Prefill=2),
            cfg("SIM weak memory: 3 senders x 1, 1 receiver x 3, nested send on the receiver, "
                "pre-filled SLOTS-2, 2 spurious", 480, Senders={1, 2, 3}, Receivers={4}, Sends=1,
                Recvs=3, Prefill=slots - 2, DeliverOn={4}, MaxNested=1, MaxDeliveries=1,
                MaxSpurious=2),
        ]
    return q


def scenarios(tier):
    def sc(name, s, ns, r, nr, pre, extra, spur=0):
        args = ["--senders", s, "--sends", ns, "--receivers", r, "--recvs", nr, "--prefill", pre,
                "--spurious", spur] + extra
        consts = dict(Senders=set(range(1, s + 1)), Receivers=set(range(s + 1, s + r + 1)),
                      Sends=max(ns, 1), Recvs=max(nr, 1), Prefill=pre,
                      DeliverOn=set(range(1, s + r + 1)), MaxNested=2, MaxDeliveries=100,
                      MaxSpurious=100, StaleFail=False, Freeze=False)
        return (name, args, consts, spur)
    q = [
        sc("s1x2_r1x2", 1, 2, 1, 2, 0, []),
        sc("s2x1_p3", 2, 1, 0, 0, 0, ["--preempt", 3]),
        sc("r2x1_pre2_p3", 0, 0, 2, 1, 2, ["--preempt", 3]),
        sc("s1_r1_pre4", 1, 1, 1, 1, 4, []),
        sc("s2x1_r1x1_pre5_p2", 2, 1, 1, 1, 5, ["--preempt", 2]),
        sc("s1_r1_nested_send_pre1", 1, 1, 1, 1, 1, ["--nested", 1, "--preempt", 2]),
        sc("s1_r1_spurious1", 1, 1, 1, 1, 1, ["--preempt", 2], spur=1),
        sc("r1x2_nested2_pre4", 0, 0, 1, 2, 4, ["--nested", 2, "--depth", 2, "--preempt", 1]),
        sc("r1x2_nested_full", 0, 0, 1, 2, 5, ["--nested", 1, "--preempt", 1, "--post-points"]),
        sc("s1_r1_nested_full", 1, 1, 1, 1, 5, ["--nested", 1, "--preempt", 1, "--post-points"]),
        sc("s1_r1_nested_pre3_post", 1, 1, 1, 1, 3, ["--nested", 1, "--preempt", 1, "--post-points"]),
    ]
    q.append(sc("s2x1_r1x6_pre4_p3", 2, 1, 1, 6, 4, ["--preempt", 3]))
    # two sends overlapping in enqueue(full) (other thread / nested) followed by enough receives to
    # meet whatever they left in the queue word
    q.append(sc("s2x1_r1x3_p2", 2, 1, 1, 3, 0, ["--preempt", 2]))
    # many spurious weak-CAS failures against one operation: it must keep retrying, not give up
    q.append(sc("s1x1_spurious8", 1, 1, 0, 0, 0, ["--preempt", 0], spur=8))
    q.append(sc("r1x1_pre1_spurious8", 0, 0, 1, 1, 1, ["--preempt", 0], spur=8))
    q.append(sc("s1_r1x3_nested_send_pre1", 1, 1, 1, 3, 1, ["--nested", 1, "--preempt", 1]))
    # a send nested in the first of 7 receives on a full channel: what it leaves behind is met by the
    # later receives (a slot named by `full` whose cell is empty panics only when its turn comes)
    q.append(sc("r1x7_nested_full", 0, 0, 1, 7, 5, ["--nested", 1, "--preempt", 0, "--post-points"]))
    # all five indices in flight: five operations parked between their two queue operations (each
    # holds an index), one more operation runs alone, then the holders finish (both orders)
    q.append(sc("hold_s6", 6, 1, 0, 0, 0, ["--mode", "hold"]))
    q.append(sc("hold_s3_r3_pre3_sender_runs", 3, 1, 3, 1, 3, ["--mode", "hold", "--runner", 0]))
    q.append(sc("hold_s2_r4_pre3_receiver_runs", 2, 1, 4, 1, 3, ["--mode", "hold"]))
    q.append(sc("hold_s1_r5_pre5_sender_runs", 1, 1, 5, 1, 5, ["--mode", "hold", "--runner", 0]))
    # generated programs (lib/genprog.py)
    import genprog
    for seed in range(40 if tier == "thorough" else 6):
        name, s_, ns_, r_, nr_, pre_, extra_, spur_ = genprog.channel_program(seed)
        q.append(sc(name, s_, ns_, r_, nr_, pre_, extra_, spur=spur_))
    if tier == "thorough":
        q += [
            sc("s2x2_r1x3_p2", 2, 2, 1, 3, 0, ["--preempt", 2]),
            sc("s2x1_r2x1_pre2_p3", 2, 1, 2, 1, 2, ["--preempt", 3]),
            sc("s1x3_r1x3_pre3_nested_p2", 1, 3, 1, 3, 3, ["--nested", 1, "--preempt", 2]),
            sc("s2x1_r1x2_pre4_spur2_p2", 2, 1, 1, 2, 4, ["--preempt", 2], spur=2),
            sc("s1x6_r1x2_nested2", 1, 6, 1, 2, 0, ["--nested", 2, "--preempt", 1]),
        ]
    return q


def run_channel(chk, tier):
    pid = chk.pid
    consts, stale, sig = extract_params()
    chk.params["channel"] = {"constants": {k: str(v) for k, v in consts.items()},
                             "signature": sig, "stale": stale}
    for s in stale:
        chk.note("fine model stale for channel: %s (falling back to exhaustive real schedules "
                 "with ChannelAbs as the only oracle)" % s)
    slots = consts["SLOTS"]
    if pid in ("C08", "C06", "C07"):
        import inductive
        inductive.tlaps_proof(
            chk, "ChannelProof.tla",
            "Spec => [](NoPanic /\\ OneFate /\\ NothingInvented): with any number of sends and receives in flight (on any "
            "threads, nested in handlers or not) and any number of slots, an enqueue always finds room, a receiver never "
            "finds an empty cell, a sender never overwrites a full one, and no value is ever in two places or handed "
            "out twice (index ownership level)",
            applies=not stale, why_not="; ".join(stale))
    if not stale:
        for what, cfg, tmo in mc_configs(tier, slots):
            if pid != "C08" and cfg["Freeze"]:
                continue
            c = dict(cfg)
            c.update(consts)
            second = what == mc_configs(tier, slots)[1][0]
            r = chk.model_check("Channel.tla", c, invariants=INV_OF[pid], what=what,
                                simulate="num=100000000" if what.startswith("SIM ") else None,
                                timeout=tmo, workers=8 if tier == "quick" else 12,
                                expect=CH_ACTIONS if second else ())
            if r.violation:
                chk.model_violation(r, "channel.rs as extracted (%s)" % what, c,
                                    extra={"signature": sig})
    todo = [(n, a, t, sp, False) for n, a, t, sp in scenarios(tier)]
    # single-thread scenarios once more with the build that has release semantics
    todo += [(n + "_rel", a, t, sp, True) for n, a, t, sp, _ in list(todo)
             if int(a[a.index("--senders") + 1]) + int(a[a.index("--receivers") + 1]) == 1]
    for name, args, tconsts, spur, rel in todo:
        out = os.path.join(WORK, "ch_%s_%s" % (chk.pid, name))
        fine_max = 300 if tier == "quick" else 3000
        stats, _, _ = harness("channel", *args, "--out", out,
                              "--max", 3000 if name.startswith("cgen") else 300000,
                              "--fine-max", fine_max, timeout=3000, rel=rel)
        chk.evaluations += stats["schedules"]
        chk.distinct += stats["distinct_abs_traces"]
        if not stats["exhausted"]:
            chk.exhaustive = False
        abs_path, fine_path = out + ".abs.ndjson", out + ".fine.ndjson"
        bound = 6 + spur
        rej, ok_lines = chk.validate_runs(
            "TraceChannelAbs.tla", abs_path, "abs_" + name,
            classify=lambda tv: classify_abs(tv, bound),
            constants=dict(SLOTS=slots, StepBound=bound, CheckDrops=(pid == "C07")),
            invariants=["SlotsBounded"],
            constraints=["Mark"])
        chk.trace_events += ok_lines
        chk.traces += max(stats["distinct_abs_traces"] - len(rej), 0)
        scheds = open(out + ".schedules.txt").read().splitlines()
        for n, what, cls in rej:
            sched = scheds[n] if n is not None and 0 <= n < len(scheds) else ""
            if cls != pid:
                chk.note("scenario %s run %s: rejected by ChannelAbs at %s - that is %s's concern, "
                         "not reported here" % (name, n, json.dumps(what), cls))
                continue
            path = write_replay(pid, "channel_%s_%s" % (name, n), {
                "property": pid, "kind": "real_execution_rejected_by_abstract_spec",
                "component": "channel", "harness_args": [str(a) for a in args],
                "schedule": sched, "rejected_event": what,
                "replay": "harness channel %s --replay '%s'" % (" ".join(map(str, args)), sched)})
            chk.violation("channel scenario %s: real execution rejected by ChannelAbs at %s"
                          % (name, json.dumps(what)), path)
        if pid == "C07":
            # the C07-only monitor sees every run of the file, also those the oracle rejected early
            own_monitor(chk, "TraceChannelCells.tla", "V_C07", dict(SLOTS=slots), name, args,
                        abs_path, scheds)
        if pid == "C08":
            own_monitor(chk, "TraceChannelProgress.tla", "V_C08", dict(StepBound=bound), name, args,
                        abs_path, scheds)
        if not stale:
            c = dict(tconsts)
            c.update(consts)
            ftv = chk.trace_validate("TraceChannel.tla", fine_path, "fine_" + name, constants=c,
                                     invariants=INV_OF[pid][:3] if pid != "C08"
                                     else ["NoPanic", "IndexPartition"])
            if ftv.accepted:
                chk.trace_events += ftv.lines
            elif ftv.violation:
                path = write_replay(pid, "channel_fine_%s" % name, {
                    "property": pid, "kind": "real_execution_violates_invariant_of_fine_spec",
                    "component": "channel", "harness_args": [str(a) for a in args],
                    "violated": ftv.violation,
                    "note": "the fine spec followed the recorded real steps (with the orderings "
                            "the code declares) into a state violating the invariant"})
                chk.violation("channel scenario %s: real steps drive Channel.tla into a state "
                              "violating %s" % (name, ftv.violation), path)
            else:
                chk.note("fine model stale for channel (scenario %s): real step %s is not the "
                         "next fine action" % (name, json.dumps(ftv.rejected)))
        if len(chk.samples) < 6:
            with open(abs_path) as f:
                lines = f.read().splitlines()
            chk.sample({"scenario": "channel " + name, "schedules": stats["schedules"],
                        "max_own_steps_per_op": stats["max_own_steps_per_op"],
                        "first_abstract_trace": lines[1:14]})
    return consts
