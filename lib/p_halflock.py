"""Half-lock part of C01 / C03 / C18: parameter extraction, fine model checking with the extracted
constants, exhaustive small-scope schedules of the real code validated against the abstract and
the fine trace specs."""
import json
import os

from common import (Check, ToolError, WORK, harness, log, scenario_of_line, write_replay)

SC = "SeqCst"
DEFAULT_ORD = dict(OrdRGen=SC, OrdRInc=SC, OrdRPtr=SC, OrdRDec=SC, OrdWPtr=SC, OrdWSwap=SC,
                   OrdWSeen=SC, OrdWFlip=SC)
_STRENGTH = {"Relaxed": 0, "Acquire": 1, "Release": 1, "AcqRel": 2, "SeqCst": 3}


def extract_params():
    """Run read() and store() alone under the shim and derive the spec constants from the
    operations they perform. Returns (constants, stale_reasons, raw signature)."""
    sig, _, _ = harness("halflock", "--signature")
    rd, st = sig["read"], sig["store"]
    stale = []
    c = dict(ReadOrder="count_then_ptr", Barrier="both", Sticky=True, Publish="swap")
    c.update(DEFAULT_ORD)
    shape = [(k, "lock" if l.startswith("lock") else l) for k, l, _, _ in rd]
    if shape == [("load", "gen"), ("fetch_add", "lock"), ("load", "data"), ("fetch_sub", "lock")]:
        c["ReadOrder"] = "count_then_ptr"
        c["OrdRGen"], c["OrdRInc"], c["OrdRPtr"], c["OrdRDec"] = (x[2] for x in rd)
    elif shape == [("load", "gen"), ("load", "data"), ("fetch_add", "lock"), ("fetch_sub", "lock")]:
        c["ReadOrder"] = "ptr_then_count"
        c["OrdRGen"], c["OrdRPtr"], c["OrdRInc"], c["OrdRDec"] = (x[2] for x in rd)
    else:
        stale.append("read(): unmodelled step shape %s" % shape)
    wshape = [(k, l) for k, l, _, _ in st]
    if wshape[:2] == [("lock", "mtx"), ("load", "data")] and len(wshape) > 3 and \
            wshape[2] in (("swap", "data"), ("store", "data")) and wshape[-1:] == [("unlock", "mtx")]:
        c["OrdWPtr"], c["OrdWSwap"] = st[1][2], st[2][2]
        c["Publish"] = wshape[2][0]
        mid = wshape[3:-1]
        if mid == [("load", "lock0"), ("load", "lock1"), ("fetch_add", "gen")]:
            c["Barrier"] = "both"
            c["OrdWSeen"] = min(st[3][2], st[4][2], key=lambda o: _STRENGTH.get(o, 0))
            c["OrdWFlip"] = st[5][2]
        elif mid == []:
            c["Barrier"] = "none"
        else:
            stale.append("store(): unmodelled barrier shape %s" % mid)
    else:
        stale.append("store(): unmodelled step shape %s" % wshape)
    return c, stale, sig


HL_ACTIONS = ["R_Gen", "R_Inc", "R_Ptr", "R_Use", "R_Dec", "W_Lock", "W_Ptr", "W_Alloc", "W_Swap",
              "W_Seen", "W_Flip", "W_Hint", "W_Re", "W_Free", "W_Unlock", "Deliver"]

INV_OF = {
    "C01": ["NoUseAfterFree", "FreeOnce", "NoRace", "CurrentLive"],
    "C03": ["ReaderNeverBlocked"],
    "C18": [],
}


def classify_abs(tv):
    r = tv.rejected
    if isinstance(r, dict) and r.get("e") in ("deadlock", "livelock"):
        return "C18"
    if isinstance(r, dict) and r.get("e") == "panic":
        return "C18"
    return "C01"


def mc_configs(tier):
    q = [
        ("1 reader, 1 writer x 2 stores, 1 handler nested on the writer",
         dict(Readers={1}, Writers={2}, Sections=1, Stores=2, DeliverOn={2}, MaxNested=1,
              MaxDeliveries=1), 300),
        ("2 readers, 1 writer x 1 store",
         dict(Readers={1, 2}, Writers={3}, Sections=1, Stores=1, DeliverOn=set(), MaxNested=0,
              MaxDeliveries=0), 300),
    ]
    if tier == "thorough":
        q += [
            ("2 readers, 1 writer x 2 stores, 1 handler nested on the writer",
             dict(Readers={1, 2}, Writers={3}, Sections=1, Stores=2, DeliverOn={3}, MaxNested=1,
                  MaxDeliveries=1), 1500),
            ("1 reader x 2 sections, 2 writers x 1 store, 1 nested handler on either writer",
             dict(Readers={1}, Writers={2, 3}, Sections=2, Stores=1, DeliverOn={2, 3},
                  MaxNested=1, MaxDeliveries=1), 1500),
        ]
    return q


def s2i_configs(tier):
    """(name, model constants, harness args, trace-spec constants, behaviours, depth)"""
    def cfg(name, r, w, st, nested, n, depth):
        readers = set(range(1, r + 1))
        writers = set(range(r + 1, r + w + 1))
        m = dict(Readers=readers, Writers=writers, Sections=1, Stores=st,
                 DeliverOn=writers if nested else set(), MaxNested=1 if nested else 0,
                 MaxDeliveries=nested)
        h = ["--readers", r, "--sections", 1, "--writers", w, "--stores", st, "--nested", nested]
        t = dict(Readers=readers, Writers=writers, Sections=1, Stores=st,
                 DeliverOn=readers | writers, MaxNested=2, MaxDeliveries=100)
        return (name, m, h, t, n, depth)
    T = tier == "thorough"
    q = [cfg("r1w1s2_nested", 1, 1, 2, 1, 3000 if T else 300, 80),
         cfg("r2w1s2", 2, 1, 2, 0, 3000 if T else 200, 80)]
    if T:
        q.append(cfg("r2w2s1_nested", 2, 2, 1, 1, 3000, 120))
    return q


def scenarios(tier):
    """(name, harness args, trace-spec constants)"""
    def sc(name, r, sec, w, st, extra):
        args = ["--readers", r, "--sections", sec, "--writers", w, "--stores", st] + extra
        consts = dict(Readers=set(range(1, r + 1)), Writers=set(range(r + 1, r + w + 1)),
                      Sections=max(sec, 1), Stores=max(st, 1),
                      DeliverOn=set(range(1, r + w + 1)), MaxNested=2, MaxDeliveries=100)
        return (name, args, consts)
    q = [
        sc("r1w1s1", 1, 1, 1, 1, []),
        sc("r1w1s2", 1, 1, 1, 2, []),
        sc("r2w1s1_p2", 2, 1, 1, 1, ["--preempt", 2]),
        sc("w1s2_nested", 0, 0, 1, 2, ["--nested", 1]),
        sc("r1w1s1_nested_p2", 1, 1, 1, 1, ["--nested", 1, "--preempt", 2]),
        sc("w2s1_nested_p2", 0, 0, 2, 1, ["--nested", 1, "--preempt", 2]),
    ]
    if tier == "thorough":
        q += [
            sc("r2w1s1_p3", 2, 1, 1, 1, ["--preempt", 3]),
            sc("r1w1s2_nested_p2", 1, 1, 1, 2, ["--nested", 1, "--preempt", 2]),
            sc("r1x2w1s2_p2", 1, 2, 1, 2, ["--preempt", 2]),
            sc("r2w2s1_p2", 2, 1, 2, 1, ["--preempt", 2]),
            sc("r1w1s2_nested2_p1", 1, 1, 1, 2, ["--nested", 2, "--preempt", 1]),
        ]
    return q


def chain_scenarios(tier):
    """C18: a fair adversary keeps at least one finite read section open at every instant while the
    writer stores; a fair cycle (lasso) in which the writer never returns is a livelock."""
    q = [("chain_r2_s3", ["--mode", "chain", "--readers", 2, "--stores", 3]),
         ("chain_r3_s2", ["--mode", "chain", "--readers", 3, "--stores", 2]),
         # two mutators: if their barriers can overlap (the writers' mutex released too early), one
         # flips the generation back while the other still waits for the slot to drain
         ("chain_r2_w2_s2", ["--mode", "chain", "--readers", 2, "--writers", 2, "--stores", 2]),
         ("chain_r3_w2_s2", ["--mode", "chain", "--readers", 3, "--writers", 2, "--stores", 2])]
    if tier == "thorough":
        q.append(("chain_r2_s8", ["--mode", "chain", "--readers", 2, "--stores", 8]))
    return q


def run_halflock(chk, tier, want_liveness=False):
    """Adds half-lock coverage/violations to chk (a Check). Returns the extracted constants."""
    pid = chk.pid
    consts, stale, sig = extract_params()
    chk.params["half_lock"] = {"constants": {k: str(v) for k, v in consts.items()},
                               "signature": sig, "stale": stale}
    for s in stale:
        chk.note("fine model stale for half_lock: %s (falling back to exhaustive real schedules "
                 "with the abstract trace spec as the only oracle)" % s)
    # 1. fine model, exhaustively, with the constants the code uses now
    if not stale:
        for what, cfg, tmo in mc_configs(tier):
            c = dict(cfg)
            c.update(consts)
            first = what == mc_configs(tier)[0][0]
            r = chk.model_check("HalfLock.tla", c, invariants=INV_OF[pid], what=what, timeout=tmo,
                                workers=8 if tier == "quick" else 12, deadlock=(pid == "C18"),
                                expect=HL_ACTIONS if first and consts["Barrier"] == "both" else ())
            if r.violation:
                chk.model_violation(r, "half_lock.rs as extracted (%s)" % what, c,
                                    extra={"signature": sig})
        if want_liveness:
            c = dict(Readers={1}, Writers={2, 3}, Sections=1, Stores=1, DeliverOn={2},
                     MaxNested=1, MaxDeliveries=1)
            c.update(consts)
            c.update(DEFAULT_ORD)  # progress is checked under SC visibility
            r = chk.model_check("HalfLock.tla", c, properties=["Termination", "WriterProgress"],
                                spec="FairSpec", what="liveness: 1 reader, 2 writers, 1 nested handler",
                                timeout=900, workers=4)
            if r.violation:
                chk.model_violation(r, "half_lock.rs liveness", c)
    # 1b. the unbounded argument: an inductive invariant (Apalache), with the extracted shape
    if pid == "C01":
        import inductive
        inductive.halflock_induction(chk, consts, readers=3 if tier == "quick" else 4)
        inductive.halflock_proof(chk, consts)
    # 2. the real code, all schedules of small scenarios
    todo = list(scenarios(tier))
    if pid == "C18":
        todo += [(n, a, None) for n, a in chain_scenarios(tier)]
    # 2b. spec -> impl: behaviours of the fine model (TLC random simulation) forced onto the real code
    if not stale and pid in ("C01", "C18"):
        import spec2impl
        for name, mcfg, hargs, tconsts, n, depth in s2i_configs(tier):
            c = dict(mcfg)
            c.update(consts)
            behs, out_txt, wall = spec2impl.behaviours(c, n, depth, "%s_s2i_%s" % (pid, name),
                                                       seed=chk.seed)
            if behs is None:
                if chk.violations:
                    break       # the exhaustive model checks above have reported it already
                raise ToolError("spec->impl %s: TLC simulation stopped on a violation that the "
                                "exhaustive model checks above did not report" % name)
            scheds = sorted(set(x for x in (spec2impl.schedule_of(b) for b in behs) if x))
            rf = os.path.join(WORK, "hl_%s_s2i_%s.replay.txt" % (pid, name))
            with open(rf, "w") as f:
                f.write("\n".join(scheds) + "\n")
            chk.extra.setdefault("spec_to_impl", []).append(
                {"config": name, "behaviours_simulated": len(behs), "distinct_forceable_schedules": len(scheds),
                 "tlc_wall_s": round(wall, 1)})
            if scheds:
                todo.append(("s2i_" + name, hargs + ["--replay-file", rf], tconsts))
    for name, args, tconsts in todo:
        out = os.path.join(WORK, "hl_%s_%s" % (chk.pid, name))
        fine_max = 600 if tier == "quick" else 5000
        stats, _, _ = harness("halflock", *args, "--out", out, "--max", 400000,
                              "--fine-max", fine_max, timeout=3000)
        chk.evaluations += stats["schedules"]
        chk.distinct += stats["distinct_abs_traces"]
        if not stats["exhausted"]:
            chk.exhaustive = False
        if stats["nondeterminism"]:
            chk.note("scenario %s: schedule enumeration saw nondeterminism" % name)
        if stats.get("replay_diverged"):
            chk.note("spec->impl %s: %d of %d model behaviours could not be forced onto the code "
                     "(first: %s): fine model stale" % (name, stats["replay_diverged"],
                                                        stats["schedules"], stats["replay_first_divergence"][:200]))
        abs_path, fine_path = out + ".abs.ndjson", out + ".fine.ndjson"
        rej, ok_lines = chk.validate_runs("TraceHalfLockAbs.tla", abs_path, "abs_" + name,
                                          classify=classify_abs,
                                          invariants=["NoHeldFreed", "EndQuiescent"])
        chk.trace_events += ok_lines
        chk.traces += max(stats["distinct_abs_traces"] - len(rej), 0)
        scheds = open(out + ".schedules.txt").read().splitlines()
        for n, what, cls in rej:
            sched = scheds[n] if n is not None and 0 <= n < len(scheds) else ""
            if cls != pid:
                chk.note("scenario %s run %s: rejected by HalfLockAbs at %s - that is %s's "
                         "concern, not reported here" % (name, n, json.dumps(what), cls))
                continue
            path = write_replay(pid, "halflock_%s_%s" % (name, n), {
                "property": pid, "kind": "real_execution_rejected_by_abstract_spec",
                "component": "halflock", "harness_args": [str(a) for a in args],
                "schedule": sched, "rejected_event": what,
                "replay": "harness halflock %s --replay '%s'" % (" ".join(map(str, args)), sched)})
            chk.violation("half-lock scenario %s: real execution rejected by HalfLockAbs at %s"
                          % (name, json.dumps(what)), path)
        if not stale and not rej and tconsts is not None:
            c = dict(tconsts)
            c.update(consts)
            ftv = chk.trace_validate("TraceHalfLock.tla", fine_path, "fine_" + name, constants=c,
                                     invariants=["CountersExact"] + INV_OF[pid][:4]
                                     if pid != "C03" else ["CountersExact"])
            if ftv.accepted:
                chk.trace_events += ftv.lines
            elif ftv.violation:
                path = write_replay(pid, "halflock_fine_%s" % name, {
                    "property": pid, "kind": "real_execution_violates_invariant_of_fine_spec",
                    "harness_args": [str(a) for a in args], "violated": ftv.violation})
                if ftv.violation in INV_OF[pid]:
                    chk.violation("half-lock scenario %s: real steps drive HalfLock.tla into a "
                                  "state violating %s" % (name, ftv.violation), path)
                else:
                    chk.note("fine model stale for half_lock (scenario %s): internal invariant "
                             "%s fails on the real steps" % (name, ftv.violation))
            else:
                chk.note("fine model stale for half_lock (scenario %s): real step %s is not the "
                         "next fine action" % (name, json.dumps(ftv.rejected)))
        if len(chk.samples) < 6:
            with open(abs_path) as f:
                lines = f.read().splitlines()
            chk.sample({"scenario": "halflock " + name, "schedules": stats["schedules"],
                        "first_abstract_trace": lines[1:12]})
    return consts
