"""Unbounded safety of the half-lock: HalfLockSC.tla's IndInv is checked to be inductive by Apalache
(Init => IndInv; IndInv /\\ Next => IndInv'; IndInit satisfiable) with the read order and barrier shape
extracted from the running code. A failed induction is not a counterexample (the state it starts from
may be unreachable): it is reported as a NOTE, the exhaustive TLC checks of HalfLock.tla decide."""
import os
import re
import shutil
import subprocess
import time

from tlcrun import SPEC, WORK


def _apalache(rundir, args, timeout):
    t0 = time.time()
    p = subprocess.run(["timeout", str(timeout), "apalache-mc", "check"] + args, cwd=rundir,
                       stdout=subprocess.PIPE, stderr=subprocess.STDOUT, text=True, errors="replace")
    out = p.stdout
    m = re.search(r"The outcome is: (\w+)", out)
    return (m.group(1) if m else "ToolFailure"), out, time.time() - t0


def halflock_induction(chk, consts, readers=3, timeout=600):
    if shutil.which("apalache-mc") is None:
        chk.note("apalache-mc not found: the inductive argument (HalfLockSC.tla) was not re-checked")
        return
    rundir = os.path.join(WORK, "apalache_%s" % chk.pid)
    shutil.rmtree(rundir, ignore_errors=True)
    os.makedirs(rundir)
    shutil.copy(os.path.join(SPEC, "HalfLockSC.tla"), rundir)
    ro, ba = consts.get("ReadOrder"), consts.get("Barrier")
    if consts.get("Publish", "swap") != "swap" or not consts.get("Sticky", True):
        chk.note("HalfLockSC.tla models the swap-publishing, sticky barrier only: no inductive argument for "
                 "the extracted shape (Publish=%s, Sticky=%s)" % (consts.get("Publish"), consts.get("Sticky")))
        return
    with open(os.path.join(rundir, "MCInd.tla"), "w") as f:
        f.write("---- MODULE MCInd ----\nEXTENDS HalfLockSC\n"
                "CInitX == Readers = {%s} /\\ Ptrs = {%s} /\\ ReadOrder = \"%s\" /\\ Barrier = \"%s\"\n====\n" % (
                    ", ".join(str(i) for i in range(1, readers + 1)),
                    ", ".join(str(i) for i in range(readers + 3)), ro, ba))
    res = {}
    for name, args in (("base", ["--cinit=CInitX", "--init=Init", "--inv=IndInv", "--length=0"]),
                       ("step", ["--cinit=CInitX", "--init=IndInit", "--inv=IndInv", "--length=1"]),
                       ("nonvacuous", ["--cinit=CInitX", "--init=IndInit", "--inv=Witness", "--length=0"])):
        outcome, out, wall = _apalache(rundir, args + ["MCInd.tla"], timeout)
        with open(os.path.join(rundir, name + ".out"), "w") as f:
            f.write(out[-100000:])
        res[name] = (outcome, round(wall, 1))
    ok = res["base"][0] == "NoError" and res["step"][0] == "NoError" and res["nonvacuous"][0] == "Error"
    chk.extra.setdefault("inductive_invariant", []).append({
        "module": "HalfLockSC.tla", "tool": "apalache-mc 0.58 (SMT, symbolic)", "readers": readers,
        "ReadOrder": ro, "Barrier": ba, "Init=>IndInv": res["base"], "IndInv/\\Next=>IndInv'": res["step"],
        "IndInit satisfiable (Witness violated)": res["nonvacuous"], "holds": ok,
        "meaning": "NoUseAfterFree in every reachable state for %d readers, any number of stores, read sections "
                   "and steps, snapshot addresses reused after free" % readers})
    print("  IND %-40s base=%s step=%s nonvacuous=%s" % ("HalfLockSC (Apalache, %d readers)" % readers,
                                                          res["base"], res["step"], res["nonvacuous"]), flush=True)
    if any(v[0] == "ToolFailure" for v in res.values()):
        chk.note("apalache-mc did not finish (%s): the inductive argument was not re-checked" % res)
    elif not ok:
        chk.note("HalfLockSC.tla: IndInv is not inductive for the extracted parameters (ReadOrder=%s, Barrier=%s): "
                 "no unbounded argument; the exhaustive checks of HalfLock.tla decide" % (ro, ba))


def halflock_proof(chk, consts, timeout=600):
    """TLAPS: HalfLockProof.tla proves Spec => []NoUseAfterFree for any number of readers and any set of
    snapshot addresses. It is a proof about the shape the code has now (count before pointer, barrier over
    both slots, swap publishing); for any other extracted shape it does not apply (NOTE)."""
    if shutil.which("tlapm") is None:
        chk.note("tlapm not found: the TLAPS proof (HalfLockProof.tla) was not re-checked")
        return
    if (consts.get("ReadOrder"), consts.get("Barrier"), consts.get("Publish", "swap"), consts.get("Sticky", True)) != \
            ("count_then_ptr", "both", "swap", True):
        chk.note("HalfLockProof.tla is a proof about the shape count_then_ptr / both / swap / sticky; the extracted "
                 "shape differs (%s): the proof does not apply" % {k: consts.get(k) for k in ("ReadOrder", "Barrier", "Publish", "Sticky")})
        return
    rundir = os.path.join(WORK, "tlaps_%s" % chk.pid)
    shutil.rmtree(rundir, ignore_errors=True)
    os.makedirs(rundir)
    shutil.copy(os.path.join(SPEC, "HalfLockProof.tla"), rundir)
    t0 = time.time()
    p = subprocess.run(["timeout", str(timeout), "tlapm", "--threads", "8", "HalfLockProof.tla"], cwd=rundir,
                       stdout=subprocess.PIPE, stderr=subprocess.STDOUT, text=True, errors="replace")
    wall = round(time.time() - t0, 1)
    with open(os.path.join(rundir, "tlapm.out"), "w") as f:
        f.write(p.stdout[-100000:])
    m = re.search(r"All (\d+) obligations proved", p.stdout)
    chk.extra.setdefault("proofs", []).append({
        "module": "HalfLockProof.tla", "tool": "tlapm (TLAPS 1.6; SMT / Zenon / Isabelle back ends)",
        "theorem": "Spec => [](NoUseAfterFree /\\ NoDoubleFree), for any set of readers and of snapshot addresses (reused after free)",
        "obligations_proved": int(m.group(1)) if m else 0, "all_proved": bool(m), "wall_s": wall})
    print("  PRF %-40s %s in %.1fs" % ("HalfLockProof.tla (TLAPS)", m.group(0) if m else "NOT all obligations proved", wall),
          flush=True)
    if not m:
        chk.note("tlapm did not prove every obligation of HalfLockProof.tla (see work/tlaps_%s/tlapm.out): no "
                 "verdict drawn from it" % chk.pid)


def tlaps_proof(chk, module, theorem, applies, why_not=""):
    """Re-check a TLAPS proof that lives in spec/<module>; `applies` says whether the shape the proof is
    about is the shape extracted from the code."""
    if shutil.which("tlapm") is None:
        chk.note("tlapm not found: the TLAPS proof (%s) was not re-checked" % module)
        return
    if not applies:
        chk.note("%s is a proof about the step order the code has on the pinned tree; the extracted shape differs "
                 "(%s): the proof does not apply" % (module, why_not))
        return
    rundir = os.path.join(WORK, "tlaps_%s_%s" % (chk.pid, module[:-4]))
    shutil.rmtree(rundir, ignore_errors=True)
    os.makedirs(rundir)
    shutil.copy(os.path.join(SPEC, module), rundir)
    t0 = time.time()
    p = subprocess.run(["timeout", "600", "tlapm", "--threads", "8", module], cwd=rundir,
                       stdout=subprocess.PIPE, stderr=subprocess.STDOUT, text=True, errors="replace")
    wall = round(time.time() - t0, 1)
    with open(os.path.join(rundir, "tlapm.out"), "w") as f:
        f.write(p.stdout[-100000:])
    m = re.search(r"All (\d+) obligations proved", p.stdout)
    chk.extra.setdefault("proofs", []).append({
        "module": module, "tool": "tlapm (TLAPS 1.6; SMT / Zenon / Isabelle back ends)", "theorem": theorem,
        "obligations_proved": int(m.group(1)) if m else 0, "all_proved": bool(m), "wall_s": wall})
    print("  PRF %-40s %s in %.1fs" % (module + " (TLAPS)", m.group(0) if m else "NOT all obligations proved", wall),
          flush=True)
    if not m:
        chk.note("tlapm did not prove every obligation of %s: no verdict drawn from it" % module)
