"""Property id -> check function."""
import p_channel
import p_halflock
import p_iterator
import p_probes
import p_registry


def c01(chk, tier):
    chk.extra["rule"] = ("real code: every schedule (DFS over scheduling points, preemption-bounded "
                         "where stated) of small half-lock scenarios; a case is one schedule, distinct = "
                         "distinct abstract event traces; model: TLC exhaustive on HalfLock.tla with "
                         "the constants extracted from the running code")
    p_halflock.run_halflock(chk, tier)
    p_registry.run_registry(chk, tier)


def c02(chk, tier):
    chk.extra["rule"] = ("real code: every schedule (DFS, preemption-bounded where stated, deliveries nested on "
                         "the mutating thread) of small registry scenarios; a case is one schedule, distinct = "
                         "distinct abstract event traces; oracle = TraceRegistryAbs.tla via TLC")
    p_registry.run_registry(chk, tier)


def c03(chk, tier):
    c02(chk, tier)
    p_iterator.run_iterator(chk, tier)
    # the built-in self-pipe action on full descriptors (shared with C13's probes)
    import os
    out = os.path.join(p_probes.WORK, "probe_C03.ndjson")
    args = ["--bursts", "1,3"]
    recs = p_probes.run_probe("pipe", args, out)
    p_probes.count(chk, recs, lambda r: (r.get("kind"), r.get("fill"), r.get("burst"), r["status"]))
    found = p_probes.validate_records(chk, "TracePipe.tla", out, "V_C03", "pipe")
    p_probes.report(chk, found, "pipe", args)


def c18(chk, tier):
    chk.extra["rule"] = "as C01, plus liveness (FairSpec) on the fine model and livelock/deadlock events on real schedules"
    p_halflock.run_halflock(chk, tier, want_liveness=True)
    p_registry.run_registry(chk, tier)


def c06(chk, tier):
    chk.extra["rule"] = ("real code: every schedule (DFS, preemption-bounded where stated, nested sends, forced "
                         "spurious weak-CAS failures) of small Channel<T> scenarios; a case is one schedule, "
                         "distinct = distinct abstract event traces; oracle = ChannelAbs via TLC trace validation "
                         "(linearisation points chosen by TLC); model: TLC exhaustive on Channel.tla over Mem.tla "
                         "with the orderings/SLOTS/BITS extracted from the running code")
    p_channel.run_channel(chk, tier)  # invariants and event classes selected by chk.pid


def c09(chk, tier):
    chk.extra["rule"] = ("real code: every schedule (DFS, preemption-bounded where stated, deliveries nested on the "
                         "consumer's thread, close()/add_signal() on other threads) of small iterator scenarios; a "
                         "case is one schedule, distinct = distinct abstract event traces; oracle = "
                         "TraceIteratorAbs.tla via TLC")
    p_iterator.run_iterator(chk, tier)


CHECKS = {"C12": p_probes.c12, "C13": p_probes.c13, "C14": p_probes.c14, "C15": p_probes.c15,
          "C16": p_probes.c16, "C17": p_probes.c17, "C09": c09, "C10": c09, "C11": c09, "C02": c02, "C04": c02, "C05": c02, "C03": c03, "C01": c01, "C18": c18, "C06": c06, "C07": c06, "C08": c06}
