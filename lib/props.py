"""Property id -> check function."""
import p_async
import p_channel
import p_halflock
import p_iterator
import p_probes
import p_registry


def c01(chk, tier):
    chk.extra["rule"] = ("real code: every schedule (DFS over scheduling points, preemption-bounded "
                         "where stated) of small half-lock scenarios; a case is one schedule, distinct = "
                         "distinct abstract event traces; model: TLC exhaustive on HalfLock.tla with "
                         "the constants extracted from the running code")
    p_halflock.run_halflock(chk, tier)
    p_registry.run_registry(chk, tier)
    stall(chk, tier)
    step(chk, tier)


def c02(chk, tier):
    chk.extra["rule"] = ("real code: every schedule (DFS, preemption-bounded where stated, deliveries nested on "
                         "the mutating thread) of small registry scenarios; a case is one schedule, distinct = "
                         "distinct abstract event traces; oracle = TraceRegistryAbs.tla via TLC")
    p_registry.run_registry(chk, tier)
    if chk.pid in ("C01", "C02", "C18"):
        stall(chk, tier)
    if chk.pid in STEP_OPS:
        step(chk, tier)


STEP_OPS = {
    "C03": "register_other,register_same,unregister,signals_pending,raw_pending,add_signal,emulate_first,drop_signals,unregister_signal_other,first_reg_prev_info,delivery_pending,close",
    "C01": "unregister,drop_signals,unregister_signal_other",
    "C04": "first_reg_prev_info,first_reg_prev_plain",
    "C02": "register_other,register_same,unregister,drop_signals",
    "C09": "signals_pending,delivery_pending,add_signal,close", "C10": "signals_pending,raw_pending,delivery_pending",
    "C13": "register_same,signals_pending", "C15": "emulate_first,register_same",
}


def step(chk, tier):
    """A real (kernel-delivered) signal at every instruction boundary of library operations, nested on
    the interrupted thread (x86 trap flag + fork per boundary); judged by TraceStep.tla."""
    import os
    import platform
    if platform.machine() != "x86_64":
        chk.note("instruction-boundary deliveries need x86-64 (trap flag); skipped on %s" % platform.machine())
        return
    out = os.path.join(p_probes.WORK, "probe_%s_step.ndjson" % chk.pid)
    args = ["--ops", STEP_OPS[chk.pid], "--all"]
    recs = p_probes.run_probe("step", args, out)
    for r in recs:
        chk.evaluations += r["r"].get("forks", 0)
        chk.traces += r["r"].get("forks", 0)
        chk.distinct += 1
    chk.sample({"instruction_boundary_deliveries": [
        {"op": r["op"], "boundaries": r["r"].get("nsteps"), "deliveries": r["r"].get("forks"),
         "verdicts": r["r"].get("steps")} for r in recs]})
    found = p_probes.validate_records(chk, "TraceStep.tla", out, "V_" + chk.pid, "step", extra_inv=["V_Env"])
    p_probes.report(chk, found, "step", args, env_inv="V_Env")


def stall(chk, tier):
    """A delivery stalled (real time, native speed) inside an earlier action while another thread
    removes a later one: the removed action must not start after the removal returned."""
    import os
    out = os.path.join(p_probes.WORK, "probe_%s_stall.ndjson" % chk.pid)
    args = ["--hold-ms", 3000 if tier == "thorough" else 700]
    recs = p_probes.run_probe("stall", args, out)
    p_probes.count(chk, recs, lambda r: (r["kind"], r["status"], r["r"].get("early"), r["r"].get("late")))
    found = p_probes.validate_records(chk, "TraceStall.tla", out, "V_" + chk.pid, "stall")
    p_probes.report(chk, found, "stall", args)


def c05(chk, tier):
    c02(chk, tier)
    # sequential histories in a fresh process (nothing has initialised the registry), against the
    # closed-form model RegistrySeq.tla
    import itertools
    import os
    hist = ["H10,R10,D10,Q10,D10,Q10,U1,Q10,D10,Q10", "G12,Q12,R12,Q12,D12,S12,Q12,D12,Q12", "Q10,R10,Q10,S10,Q10,Q12",
            "S10", "S10,R10,D10", "S10,S12,R12,D12,S12,D12", "R10,U1,U1,S10,D10", "R10,R10,S10,S10,R10,D10",
            "U1", "R10,R12,U2,D12,D10,S10,D10", "R12,R10,R12,U1,D12,U3,D12,S12,D12"]
    if tier == "thorough":
        alphabet = ["R10", "R12", "U1", "U2", "S10", "D10", "D12", "H10", "Q10"]
        def sane(p):
            # a delivery of a signal the library never took over would just kill the probe
            taken = set()
            for tok in p:
                if tok[0] == "R":
                    taken.add(tok[1:])
                elif tok[0] == "D" and tok[1:] not in taken:
                    return False
                elif tok[0] in "HG" and tok[1:] in taken:
                    return False     # other code replacing the library's handler is outside the contract
            return True
        hist += [",".join(p) for n in (2, 3, 4) for p in itertools.product(alphabet, repeat=n) if sane(p)][:1500]
    out = os.path.join(p_probes.WORK, "probe_C05.ndjson")
    args = ["--histories", ";".join(hist)]
    recs = p_probes.run_probe("fresh", args, out)
    p_probes.count(chk, recs, lambda r: (r["hist"], r["status"]))
    found = p_probes.validate_records(chk, "TraceFresh.tla", out, "V_C05", "fresh")
    p_probes.report(chk, found, "fresh", args)
    p_probes.rel_pass(chk, "fresh", args, "TraceFresh.tla", "V_C05")


def c03(chk, tier):
    c02(chk, tier)
    p_iterator.run_iterator(chk, tier)
    # the built-in self-pipe action on full descriptors (shared with C13's probes)
    import os
    out = os.path.join(p_probes.WORK, "probe_C03.ndjson")
    args = ["--bursts", "1,3"]
    recs = p_probes.run_probe("pipe", args, out)
    p_probes.count(chk, recs, lambda r: (r.get("kind"), r.get("fill"), r.get("burst"), r["status"]))
    found = p_probes.validate_records(chk, "TracePipe.tla", out, "V_C03", "pipe")
    p_probes.report(chk, found, "pipe", args)
    p_probes.rel_pass(chk, "pipe", args, "TracePipe.tla", "V_C03")


def c18(chk, tier):
    chk.extra["rule"] = "as C01, plus liveness (FairSpec) on the fine model and livelock/deadlock events on real schedules"
    p_halflock.run_halflock(chk, tier, want_liveness=True)
    p_registry.run_registry(chk, tier)
    stall(chk, tier)


def c06(chk, tier):
    chk.extra["rule"] = ("real code: every schedule (DFS, preemption-bounded where stated, nested sends, forced "
                         "spurious weak-CAS failures) of small Channel<T> scenarios; a case is one schedule, "
                         "distinct = distinct abstract event traces; oracle = ChannelAbs via TLC trace validation "
                         "(linearisation points chosen by TLC); model: TLC exhaustive on Channel.tla over Mem.tla "
                         "with the orderings/SLOTS/BITS extracted from the running code")
    p_channel.run_channel(chk, tier)  # invariants and event classes selected by chk.pid


def c09(chk, tier):
    chk.extra["rule"] = ("real code: every schedule (DFS, preemption-bounded where stated, deliveries nested on the "
                         "consumer's thread, close()/add_signal() on other threads) of small iterator scenarios; a "
                         "case is one schedule, distinct = distinct abstract event traces; oracle = "
                         "TraceIteratorAbs.tla via TLC; runtime adapters (tokio, async-std, mio 0.7/0.8/1.0): operation "
                         "histories in forked children validated against the monitor of AsyncOps.tla")
    p_iterator.run_iterator(chk, tier)
    p_async.run_async(chk, tier)
    if chk.pid in STEP_OPS:
        step(chk, tier)
    if chk.pid == "C10":
        # what the WithOrigin exfiltrator hands out for real deliveries (kill, raise, sigqueue, timers,
        # child events): the same probes as C17, judged as "a faithful copy of one delivery"
        import os
        out = os.path.join(p_probes.WORK, "probe_C10_origin.ndjson")
        recs = p_probes.run_probe("origin", [], out)
        p_probes.count(chk, recs, lambda r: (r["e"], r.get("signo", r.get("sig")), r.get("code", r.get("how"))))
        found = p_probes.validate_records(chk, "TraceOrigin.tla", out, "V_C10", "origin")
        p_probes.report(chk, found, "origin", [])


CHECKS = {"C12": p_probes.c12, "C13": p_probes.c13, "C14": p_probes.c14, "C15": p_probes.c15,
          "C16": p_probes.c16, "C17": p_probes.c17, "C09": c09, "C10": c09, "C11": c09, "C02": c02, "C04": c02, "C05": c05, "C03": c03, "C01": c01, "C18": c18, "C06": c06, "C07": c06, "C08": c06}
