"""Shared plumbing of the checks: building the harness, running it, trace validation with TLC,
evidence files, known findings, verdicts."""
import json
import os
import re
import subprocess
import sys
import time

from tlcrun import LANE, LANE_DIR, REPO, SPEC, VERIF, WORK, cfg_text, run_tlc, trace_actions

HARNESS_DIR = os.path.join(LANE_DIR, "harness") if LANE else os.path.join(VERIF, "harness")
HARNESS_BIN = os.path.join(HARNESS_DIR, "target", "debug", "sighook-verif-harness")
HARNESS_BIN_REL = os.path.join(HARNESS_DIR, "target", "relsem", "sighook-verif-harness")
EVIDENCE = os.path.join(LANE_DIR, "evidence") if LANE else os.path.join(VERIF, "evidence")
REPLAY = os.path.join(WORK, "replay")
KNOWN = os.path.join(VERIF, "known-findings.json")


class ToolError(Exception):
    pass


def log(msg):
    print(msg, flush=True)


def build_harness():
    """(Re)build the harness against /repo's current working tree, hooks on."""
    import shutil
    os.makedirs(WORK, exist_ok=True)
    if LANE:
        # private copy of the harness sources pointing at the lane's checkout
        os.makedirs(EVIDENCE, exist_ok=True)
        src = os.path.join(VERIF, "harness")
        os.makedirs(HARNESS_DIR, exist_ok=True)
        if os.path.isdir(os.path.join(HARNESS_DIR, "src")):
            shutil.rmtree(os.path.join(HARNESS_DIR, "src"))
        shutil.copytree(os.path.join(src, "src"), os.path.join(HARNESS_DIR, "src"))
        shutil.copytree(os.path.join(src, ".cargo"), os.path.join(HARNESS_DIR, ".cargo"), dirs_exist_ok=True)
        with open(os.path.join(src, "Cargo.toml")) as f:
            toml = f.read().replace('"/repo', '"' + REPO)
        with open(os.path.join(HARNESS_DIR, "Cargo.toml"), "w") as f:
            f.write(toml)
    lock = os.path.join(HARNESS_DIR, "Cargo.lock")
    if not os.path.exists(lock):
        shutil.copy(os.path.join(REPO, "Cargo.lock"), lock)
    env = dict(os.environ)
    env["CARGO_NET_OFFLINE"] = "true"
    t0 = time.time()
    # signal-hook's build.rs compiles src/low_level/extract.c through the cc crate, whose
    # rerun-if-env-changed directives switch off cargo's default "any file of the package changed"
    # rule: an edit to extract.c alone would not be rebuilt. Drop that package's artefacts.
    # two builds: the dev profile, and "relsem" (debug assertions and overflow checks off, as in a
    # user's release build) for the sequential probes
    for prof in ([], ["--profile", "relsem"]):
        subprocess.run(["cargo", "clean", "--offline", "-p", "signal-hook"] + prof, cwd=HARNESS_DIR,
                       env=env, stdout=subprocess.PIPE, stderr=subprocess.STDOUT, text=True)
    procs = [subprocess.Popen(["cargo", "build", "--offline"] + prof, cwd=HARNESS_DIR, env=env,
                              stdout=subprocess.PIPE, stderr=subprocess.STDOUT, text=True)
             for prof in ([], ["--profile", "relsem"])]
    for p in procs:
        out, _ = p.communicate()
        if p.returncode != 0:
            tail = "\n".join(out.splitlines()[-40:])
            raise ToolError("harness build failed:\n" + tail)
    return time.time() - t0


def harness(*args, timeout=1800, check=True, env=None, rel=False):
    """Run the harness; returns (parsed last JSON line or None, full stdout, returncode)."""
    e = dict(os.environ)
    if env:
        e.update(env)
    try:
        p = subprocess.run([HARNESS_BIN_REL if rel else HARNESS_BIN] + [str(a) for a in args], stdout=subprocess.PIPE,
                           stderr=subprocess.PIPE, text=True, timeout=timeout, env=e,
                           errors="replace")
    except subprocess.TimeoutExpired:
        raise ToolError("harness timed out: %s" % " ".join(map(str, args)))
    out = p.stdout
    last = None
    for line in reversed(out.strip().splitlines()):
        line = line.strip()
        if line.startswith("{") or line.startswith("["):
            try:
                last = json.loads(line)
                break
            except ValueError:
                continue
    if p.returncode == -6 and "LIBRARY-ABORT" in (p.stderr or ""):
        # the code under test called abort() during an explored schedule: data, not a tool failure
        sched, run = "", ""
        for line in p.stderr.splitlines():
            if line.startswith("LIBRARY-ABORT schedule="):
                sched = line.split("=", 1)[1].strip()
            elif line.startswith("LIBRARY-ABORT run="):
                run = line.split("=", 1)[1].strip()
        raise LibraryAbort([str(a) for a in args], sched, run)
    if check and p.returncode != 0:
        raise ToolError("harness %s exited %d: %s" % (" ".join(map(str, args)), p.returncode,
                                                     (p.stderr or out)[-2000:]))
    return last, out, p.returncode


def read_ndjson(path):
    with open(path) as f:
        return [json.loads(l) for l in f if l.strip()]


class LibraryAbort(Exception):
    """The library aborted the process (e.g. half_lock.rs's reader-count guard) in an explored run."""

    def __init__(self, args, schedule, run):
        Exception.__init__(self, "library aborted the process")
        self.harness_args, self.schedule, self.run = args, schedule, run


class TvResult:
    def __init__(self):
        self.accepted = False
        self.lines = 0
        self.rejected_at = None     # 1-based line number
        self.rejected = None        # the record
        self.violation = None       # invariant violated while replaying
        self.last_state = ""
        self.error = None
        self.tlc = None


def validate_trace(module, trace_path, name, constants=None, invariants=(), timeout=900,
                   heap="4g", constraints=()):
    """TLC trace validation: `module` is a Trace*.tla with TraceSpec / TraceAccepted."""
    res = TvResult()
    with open(trace_path) as f:
        res.lines = sum(1 for l in f if l.strip())
    if res.lines == 0:
        res.accepted = True
        return res
    cfg = cfg_text(constants or {}, invariants=invariants, spec="TraceSpec",
                   check_deadlock=False, postcondition="TraceAccepted", constraints=constraints)
    if not constants:
        cfg = cfg.replace("CONSTANTS\n", "")
    r = run_tlc(module, cfg, name, workers=1, timeout=timeout, env={"TRACE": trace_path},
                dfs_queue=True, heap=heap)
    res.tlc = r
    m = re.search(r'"TRACE_REJECTED",\s*(\d+)', r.stdout)
    if r.violation and r.violation != "postcondition":
        # an invariant of the spec failed on the state reached by replaying the real steps
        res.violation = r.violation
        # the counterexample has one state per consumed record plus the initial one
        res.rejected_at = (int(m.group(1)) - 1) if m else ((len(r.trace) - 1) or None)
        res.last_state = r.trace[-1]["text"] if r.trace else ""
        return res
    if m:
        res.rejected_at = int(m.group(1))
        try:
            res.rejected = read_ndjson(trace_path)[res.rejected_at - 1]
        except Exception:
            res.rejected = "line %d" % res.rejected_at
        return res
    if r.ok:
        res.accepted = True
    else:
        res.error = r.error or "trace validation did not complete"
    return res


def strip_runs_through(trace_path, line_no, out_path):
    """Write to out_path the runs that start after the run containing 1-based line_no."""
    with open(trace_path) as f:
        lines = f.readlines()
    k = None
    for i in range(line_no, len(lines)):
        if '"e":"reset"' in lines[i]:
            k = i
            break
    with open(out_path, "w") as f:
        if k is not None:
            f.writelines(lines[k:])
    return 0 if k is None else len(lines) - k


def scenario_of_line(trace_path, line_no):
    """Index (field n) of the run a 1-based line number belongs to."""
    n = None
    with open(trace_path) as f:
        for i, l in enumerate(f, 1):
            if i > line_no:
                break
            if '"e":"reset"' in l:
                n = json.loads(l).get("n")
    return n


class Check:
    """One property check run: collects coverage, notes, violations; writes evidence; exits."""

    def __init__(self, pid, tier, level="model_checking"):
        self.pid = pid
        self.tier = tier
        self.level = level
        self.seed = int(os.environ.get("VERIF_SEED", "1") or 1)
        self.t0 = time.time()
        self.states = 0
        self.transitions = 0
        self.traces = 0
        self.trace_events = 0
        self.evaluations = 0
        self.distinct = 0
        self.samples = []
        self.mc = []
        self.tv = []
        self.notes = []
        self.violations = []      # (what, replay_path)
        self.known_hit = []
        self.params = {}
        self.assumptions = []
        self.exhaustive = True
        self.extra = {}
        os.makedirs(REPLAY, exist_ok=True)
        os.makedirs(EVIDENCE, exist_ok=True)
        try:
            self.known = json.load(open(KNOWN))
        except Exception:
            self.known = {"findings": [], "fixed": []}

    # ---- model checking -------------------------------------------------
    def model_check(self, module, constants, invariants=(), properties=(), name=None,
                    spec="Spec", workers=8, timeout=900, what="", constraints=(),
                    deadlock=True, heap="8g", coverage=False, view=None, expect=(), simulate=None):
        """expect: names of spec actions that must have produced at least one distinct state
        (vacuity guard, from TLC's -coverage statistics); a zero is a tool error."""
        coverage = coverage or bool(expect)
        name = name or ("%s_%s_%d" % (self.pid, module.split(".")[0], len(self.mc)))
        cfg = cfg_text(constants, invariants=invariants, properties=properties, spec=spec,
                       constraints=constraints, view=view)
        r = run_tlc(module, cfg, name, workers=workers, timeout=timeout, deadlock=deadlock,
                    heap=heap, coverage=coverage, simulate=simulate,
                    extra=["-depth", "600"] if simulate else ())
        if simulate:
            self.exhaustive = False
            what = what + " [random simulation, %s s]" % timeout
        entry = {"module": module, "what": what, "constants": {k: str(v) for k, v in constants.items()},
                 "invariants": list(invariants), "properties": list(properties)}
        entry.update(r.summary())
        self.mc.append(entry)
        self.states += r.distinct
        self.transitions += r.generated
        if r.error:
            if "timeout" in r.error:
                self.exhaustive = False
                self.notes.append("TLC %s: %s (bounded by time; %d distinct states explored)"
                                  % (name, r.error, r.distinct))
                entry["ok"] = None
                return r
            raise ToolError("TLC %s failed: %s\n%s" % (name, r.error, r.stdout[-1500:]))
        if expect and not r.violation:
            dead = [a for a in expect if r.coverage.get(a, (0, 0))[1] == 0]
            entry["actions_covered"] = {a: r.coverage.get(a, (0, 0))[1] for a in expect}
            if dead:
                # With the constants of the unchanged code every listed action is taken (checked
                # while building); an action that is never taken means the extracted step order
                # describes code the model has no faithful reading of: no verdict from this model,
                # the real schedules below decide.
                if os.environ.get("VERIF_STRICT") == "1":
                    raise ToolError("vacuous model check %s: actions never taken: %s" % (name, dead))
                self.exhaustive = False
                self.note("model check %s is vacuous for the extracted constants (actions never "
                          "taken: %s): treated as stale, no verdict drawn from it" % (name, dead))
                entry["ok"] = None
        log("  MC %-40s %s: %d distinct / %d generated, %.1fs%s" % (
            name, what, r.distinct, r.generated, r.wall,
            "" if r.ok else "  VIOLATED " + str(r.violation)))
        return r

    def model_violation(self, r, what, constants, extra=None):
        path = os.path.join(REPLAY, "%s_model_%d.json" % (self.pid, len(self.violations)))
        json.dump({"property": self.pid, "kind": "model_counterexample", "what": what,
                   "violated": r.violation, "constants": {k: str(v) for k, v in constants.items()},
                   "actions": trace_actions(r.trace),
                   "states": [s["text"] for s in r.trace][-6:], "extra": extra or {}},
                  open(path, "w"), indent=1)
        self.violation("%s: TLC violates %s (%s)" % (what, r.violation,
                                                    " ".join(trace_actions(r.trace)[-8:])), path)

    # ---- trace validation ------------------------------------------------
    def trace_validate(self, module, trace_path, name, constants=None, invariants=(),
                       timeout=900, constraints=()):
        tv = validate_trace(module, trace_path, "%s_%s" % (self.pid, name), constants,
                            invariants, timeout, constraints=constraints)
        self.tv.append({"module": module, "name": name, "lines": tv.lines,
                        "accepted": tv.accepted, "rejected_at": tv.rejected_at,
                        "rejected": tv.rejected, "violation": tv.violation, "error": tv.error})
        if tv.tlc is not None:
            # every trace line is a state of the (trace) spec on which TLC evaluated the invariants
            self.states += tv.tlc.distinct
            self.transitions += tv.tlc.generated
        if tv.error:
            raise ToolError("trace validation %s failed: %s\n%s" % (
                name, tv.error, tv.tlc.stdout[-1500:] if tv.tlc else ""))
        log("  TV %-40s %d lines: %s" % (name, tv.lines, "accepted" if tv.accepted else
                                         "REJECTED at %s %s %s" % (tv.rejected_at, tv.rejected,
                                                                   tv.violation or "")))
        return tv

    def validate_runs(self, module, trace_path, name, classify, constants=None, invariants=(),
                      constraints=(), max_rejections=4):
        """Validate a file of concatenated runs. A rejected run does not hide later ones: it is
        recorded with its class and validation resumes after it. Returns
        [(run index n, rejected record or invariant name, class)], accepted_lines."""
        rejections = []
        accepted_lines = 0
        path = trace_path
        rounds = 0
        while True:
            tv = self.trace_validate(module, path, name + ("" if rounds == 0 else "_r%d" % rounds),
                                     constants=constants, invariants=invariants,
                                     constraints=constraints)
            if tv.accepted:
                accepted_lines += tv.lines
                break
            at = tv.rejected_at or 1
            n = scenario_of_line(path, at)
            what = tv.violation if tv.violation else tv.rejected
            rejections.append((n, what, classify(tv)))
            accepted_lines += max(at - 1, 0)
            rounds += 1
            if rounds >= max_rejections:
                self.exhaustive = False
                self.note("%s: stopped after %d rejected runs; the rest of the file was not "
                          "validated" % (name, rounds))
                break
            nxt = "%s.rest%d" % (trace_path, rounds)
            if strip_runs_through(path, at, nxt) <= 1:
                break
            path = nxt
        return rejections, accepted_lines

    # ---- verdicts --------------------------------------------------------
    def violation(self, what, replay_path, key=None):
        """key: identity of the witness, matched against known-findings."""
        for k in self.known.get("findings", []):
            if k.get("property") == self.pid and key is not None and k.get("key") == key:
                self.known_hit.append((k, what))
                return
        self.violations.append((what, replay_path))

    def note(self, msg):
        self.notes.append(msg)
        log("  NOTE: " + msg)

    def sample(self, s):
        if len(self.samples) < 8:
            self.samples.append(s)

    def finish(self):
        wall = time.time() - self.t0
        cov = {
            "states": max(self.states, 0),
            "transitions": max(self.transitions, 0),
            "traces_validated_against_impl": self.traces,
            "trace_events_validated": self.trace_events,
            "evaluations": self.evaluations,
            "distinct_nontrivial": self.distinct,
            "rule": self.extra.pop("rule", ""),
            "samples": self.samples or ["(none)"],
            "exhaustive": bool(self.exhaustive),
            "model_checks": self.mc,
            "trace_validations": self.tv,
            "extracted_parameters": self.params,
            "notes": self.notes,
            "known_findings_hit": [k[0].get("key") for k in self.known_hit],
        }
        cov.update(self.extra)
        ev = {"property_id": self.pid, "tier": self.tier, "seed": self.seed, "level": self.level,
              "coverage": cov, "assumptions": self.assumptions, "wall_s": round(wall, 2),
              "violations": len(self.violations)}
        with open(os.path.join(EVIDENCE, self.pid + ".json"), "w") as f:
            json.dump(ev, f, indent=1, default=str)
        for k, what in self.known_hit:
            print("KNOWN-FINDING: property=%s %s" % (self.pid, k.get("what", what)))
        for what, path in self.violations:
            print("VIOLATION property=%s replay=%s" % (self.pid, path))
            print("  " + what)
        log("%s %s: %s in %.1fs (states=%d, real traces=%d)" % (
            self.pid, self.tier, "VIOLATED" if self.violations else "holds on everything explored",
            wall, self.states, self.traces))
        return 1 if self.violations else 0


def write_replay(pid, idx, obj):
    os.makedirs(REPLAY, exist_ok=True)
    path = os.path.join(REPLAY, "%s_%s.json" % (pid, idx))
    json.dump(obj, open(path, "w"), indent=1, default=str)
    return path
