"""Run TLC and parse what it says. Used by every check."""
import json
import os
import re
import shutil
import subprocess
import time

VERIF = os.path.dirname(os.path.dirname(os.path.abspath(__file__)))
SPEC = os.path.join(VERIF, "spec")
# A "lane" (VERIF_LANE=<name>, VERIF_REPO=<checkout>) runs the same checks against another checkout
# of the library with private work / harness / evidence directories under /tmp/verif_lanes/<name>:
# used only while developing (seeded bugs in parallel); the registered commands never set it.
LANE = os.environ.get("VERIF_LANE", "")
REPO = os.environ.get("VERIF_REPO", "/repo")
LANE_DIR = os.path.join("/tmp/verif_lanes", LANE) if LANE else ""
WORK = os.path.join(LANE_DIR, "work") if LANE else os.path.join(VERIF, "work")


class TlcResult:
    def __init__(self):
        self.ok = False            # completed without any violation
        self.violation = None      # name of violated invariant / property / "deadlock"
        self.error = None          # tool error text (parse error, timeout, ...)
        self.generated = 0
        self.distinct = 0
        self.depth = 0
        self.wall = 0.0
        self.trace = []            # list of state dicts (text) for a counterexample
        self.coverage = {}         # action name -> (distinct, generated)
        self.stdout = ""
        self.printed = []          # PrintT output lines
        self.simulated = False     # random simulation bounded by time
        self.traces = 0

    def summary(self):
        return {
            "ok": self.ok, "violation": self.violation, "error": self.error,
            "generated": self.generated, "distinct": self.distinct, "depth": self.depth,
            "wall_s": round(self.wall, 2),
        }


def cfg_text(constants, invariants=(), properties=(), spec="Spec", constraints=(),
             view=None, check_deadlock=None, postcondition=None, action_constraints=()):
    lines = ["SPECIFICATION %s" % spec, "CONSTANTS"]
    for k, v in constants.items():
        lines.append("  %s = %s" % (k, tla_value(v)))
    if invariants:
        lines.append("INVARIANTS " + " ".join(invariants))
    if properties:
        lines.append("PROPERTIES " + " ".join(properties))
    for c in constraints:
        lines.append("CONSTRAINT %s" % c)
    for c in action_constraints:
        lines.append("ACTION_CONSTRAINT %s" % c)
    if view:
        lines.append("VIEW %s" % view)
    if check_deadlock is not None:
        lines.append("CHECK_DEADLOCK %s" % ("TRUE" if check_deadlock else "FALSE"))
    if postcondition:
        lines.append("POSTCONDITION %s" % postcondition)
    return "\n".join(lines) + "\n"


def tla_value(v):
    if isinstance(v, bool):
        return "TRUE" if v else "FALSE"
    if isinstance(v, int):
        return str(v)
    if isinstance(v, str):
        if v.startswith("@"):      # raw TLA expression (goes through a wrapper module)
            return "EXPR:" + v[1:]
        return '"%s"' % v
    if isinstance(v, (set, frozenset)):
        return "{" + ", ".join(tla_value(x) for x in sorted(v, key=str)) + "}"
    if isinstance(v, (list, tuple)):
        # cfg files cannot hold sequences: route through the wrapper module
        return "EXPR:<<" + ", ".join(tla_value(x) for x in v) + ">>"
    raise TypeError(v)


_state_re = re.compile(r"^State (\d+): (.*)$")


def run_tlc(module, cfg, name, workers=8, timeout=600, simulate=None, env=None,
            coverage=False, heap="8g", extra=(), dfs_queue=False, deadlock=True, keep=False):
    """module: file name in spec/ (e.g. HalfLock.tla); cfg: text; name: unique run name."""
    os.makedirs(WORK, exist_ok=True)
    rundir = os.path.join(WORK, "tlc_" + name)
    shutil.rmtree(rundir, ignore_errors=True)
    os.makedirs(rundir)
    cfgpath = os.path.join(rundir, name + ".cfg")
    # Constants given as TLA+ expressions ("X = @expr" lines produced by cfg_text for values that
    # a cfg file cannot hold) go through a generated wrapper module: X <- const_X.
    root = os.path.join(SPEC, module)
    exprs = re.findall(r"^  (\w+) = EXPR:(.*)$", cfg, re.M)
    if exprs:
        base = module[:-4]
        wname = "MC_" + re.sub(r"\W", "_", name)
        with open(os.path.join(rundir, wname + ".tla"), "w") as f:
            f.write("---- MODULE %s ----\nEXTENDS %s\n" % (wname, base))
            for k, v in exprs:
                f.write("const_%s == %s\n" % (k, v))
            f.write("====\n")
        for k, v in exprs:
            cfg = cfg.replace("  %s = EXPR:%s" % (k, v), "  %s <- const_%s" % (k, k))
        root = os.path.join(rundir, wname + ".tla")
    with open(cfgpath, "w") as f:
        f.write(cfg)
    jopts = "-Xss1g -DTLA-Library=" + SPEC
    if dfs_queue:
        jopts += " -Dtlc2.tool.queue.IStateQueue=StateDeque"
    e = dict(os.environ)
    e["JAVA_TOOL_OPTIONS"] = jopts
    if env:
        e.update(env)
    cmd = ["timeout", str(timeout), "java", "-XX:+UseParallelGC", "-Xmx" + heap, "-cp",
           "/opt/veriftools/tla/tla2tools.jar:/opt/veriftools/tla/CommunityModules-deps.jar",
           "tlc2.TLC", "-workers", str(workers), "-metadir", os.path.join(rundir, "meta"),
           "-noGenerateSpecTE", "-config", cfgpath]
    if not deadlock:
        cmd.append("-deadlock")
    if coverage:
        cmd += ["-coverage", "1"]
    if simulate:
        cmd += ["-simulate", simulate]
    cmd += list(extra)
    cmd.append(root)
    t0 = time.time()
    p = subprocess.run(cmd, stdout=subprocess.PIPE, stderr=subprocess.STDOUT, env=e, cwd=SPEC,
                       text=True, errors="replace")
    r = TlcResult()
    r.wall = time.time() - t0
    r.stdout = p.stdout
    out = p.stdout
    if p.returncode == 124:
        r.error = "timeout after %ss" % timeout
        if simulate:
            # random simulation is bounded by time: report what was checked
            ms = re.findall(r"Progress: (\d+) states checked, (\d+) traces generated", out)
            if ms and not re.search(r"is violated|Deadlock reached|Error:", out):
                r.generated = r.distinct = int(ms[-1][0])
                r.traces = int(ms[-1][1])
                r.error = None
                r.ok = True
                r.simulated = True
    m = re.search(r"(\d+) states generated, (\d+) distinct states found", out)
    if m:
        r.generated, r.distinct = int(m.group(1)), int(m.group(2))
    m = re.search(r"depth of the complete state graph search is (\d+)", out)
    if m:
        r.depth = int(m.group(1))
    m = re.search(r"Invariant (\S+) is violated", out)
    if m:
        r.violation = m.group(1)
    elif "Deadlock reached" in out:
        r.violation = "deadlock"
    elif re.search(r"Temporal properties were violated", out):
        r.violation = "temporal"
    elif re.search(r"Action property (\S+) is violated", out):
        r.violation = re.search(r"Action property (\S+) is violated", out).group(1)
    elif "The postcondition is violated" in out or "Postcondition" in out and "violated" in out:
        r.violation = "postcondition"
    if r.violation:
        r.trace = parse_trace(out)
    if r.error is None and not r.violation and not getattr(r, "simulated", False):
        if "Model checking completed. No error has been found." in out or \
           (simulate and p.returncode == 0):
            r.ok = True
        else:
            errs = [l for l in out.splitlines() if "Error" in l or "error" in l]
            r.error = "; ".join(errs[:5]) or ("TLC exit %d" % p.returncode)
    for l in out.splitlines():
        if l.startswith("<<\"") or l.startswith("\"") or l.startswith("<<"):
            r.printed.append(l)
    if coverage:
        r.coverage = parse_coverage(out)
    if not keep:
        shutil.rmtree(os.path.join(rundir, "meta"), ignore_errors=True)
    with open(os.path.join(rundir, "out.txt"), "w") as f:
        f.write(out)
    return r


def parse_trace(out):
    states = []
    cur = None
    for line in out.splitlines():
        m = _state_re.match(line)
        if m:
            cur = {"n": int(m.group(1)), "action": m.group(2), "text": []}
            states.append(cur)
        elif cur is not None:
            if line.strip() == "" :
                cur = None
            else:
                cur["text"].append(line)
    for s in states:
        s["text"] = "\n".join(s["text"])
    return states


def parse_coverage(out):
    """Per-action counts from -coverage: lines like
       <R_Gen line 120, col 1 to line 128, col 55 of module HalfLock>: 12:345"""
    cov = {}
    for m in re.finditer(r"^<(\w+) line \d+, col \d+ to line \d+, col \d+ of module (\w+)"
                         r"(?: \([^)]*\))?>: (\d+):(\d+)", out, re.M):
        name = m.group(1)
        d, g = int(m.group(3)), int(m.group(4))
        old = cov.get(name, (0, 0))
        cov[name] = (max(old[0], d), max(old[1], g))
    return cov


def trace_actions(trace):
    """Short names of the actions of a counterexample."""
    acts = []
    for s in trace:
        m = re.match(r"<(\w+)", s["action"])
        acts.append(m.group(1) if m else s["action"])
    return acts
