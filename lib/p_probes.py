"""C12 - C17: forked probes of the real library (the correct outcome often kills, stops or
reconfigures the process), one NDJSON record per probe, validated by TLC against the sequential
specs (SignalsOps, Pipe, RejectOps, FlagOps, Default/Kernel, OriginOps); plus TLC model checks of
those specs instantiated with what the probes extracted from the running code."""
import json
import os
import re
import subprocess

from common import HARNESS_BIN_REL, HARNESS_BIN, ToolError, WORK, write_replay


def run_probe(which, args, out, rel=False):
    """rel: use the build with release semantics (debug assertions / overflow checks off)."""
    cmd = [HARNESS_BIN_REL if rel else HARNESS_BIN, "probe", which] + [str(a) for a in args]
    with open(out, "w") as f:
        p = subprocess.run(cmd, stdout=f, stderr=subprocess.PIPE, text=True, timeout=1800)
    if p.returncode != 0:
        raise ToolError("probe %s exited %d: %s" % (which, p.returncode, p.stderr[-1500:]))
    with open(out) as f:
        return [json.loads(l) for l in f if l.strip()]


def validate_records(chk, module, path, inv, name, constants=None, extra_inv=(), max_viol=6):
    """TLC trace validation of independent records; each violating record is reported, removed
    and validation resumes."""
    found = []
    cur = path
    for rnd in range(max_viol + 1):
        tv = chk.trace_validate(module, cur, name + ("" if rnd == 0 else "_r%d" % rnd),
                                constants=constants, invariants=[inv] + list(extra_inv))
        if tv.accepted:
            break
        if not tv.violation:
            raise ToolError("%s: TLC could not follow record %s" % (name, json.dumps(tv.rejected)))
        lines = open(cur).read().splitlines()
        idx = (tv.rejected_at or 1) - 1
        rec = json.loads(lines[idx]) if 0 <= idx < len(lines) else None
        flags = ""
        try:
            out = open(os.path.join(WORK, "tlc_%s_%s%s" % (chk.pid, name, "" if rnd == 0 else "_r%d" % rnd),
                                    "out.txt")).read()
            m = re.findall(r"/\\ viol = (\{[^}]*\})", out)
            flags = " ".join(m[-1].split()) if m else ""
        except Exception:
            pass
        found.append((tv.violation, rec, flags))
        del lines[idx]
        cur = "%s.rest%d" % (path, rnd + 1)
        with open(cur, "w") as f:
            f.write("\n".join(lines) + "\n")
        if not lines:
            break
    else:
        chk.exhaustive = False
    return found


def report(chk, found, which, args, env_inv=None):
    for inv, rec, flags in found:
        if env_inv and inv == env_inv:
            raise ToolError("environment differs from the kernel model: %s %s" % (json.dumps(rec), flags))
        key = "%s|%s" % (which, json.dumps({k: rec[k] for k in rec if k not in ("r", "status", "report")},
                                            sort_keys=True)) if rec else which
        path = write_replay(chk.pid, "probe_%s_%d" % (which, len(chk.violations) + len(chk.known_hit)), {
            "property": chk.pid, "kind": "probe_record_rejected_by_spec", "probe": which,
            "record": rec, "violated": inv, "flags": flags,
            "replay": "harness probe %s %s   # then look for this record" % (
                which, " ".join(map(str, args)))})
        chk.violation("probe %s: %s %s for %s" % (which, inv, flags, json.dumps(rec)[:300]), path,
                      key=key)


def count(chk, recs, nontrivial):
    chk.evaluations += len(recs)
    chk.distinct += len({json.dumps(nontrivial(r), sort_keys=True) for r in recs})
    chk.traces += len(recs)
    for r in recs[:3]:
        chk.sample(r)


def rel_pass(chk, which, args, module, inv, extra_inv=(), env_inv=None, constants=None):
    """The same probes once more with the build that has release semantics (debug assertions and
    overflow checks compiled out): what a user's optimised build does."""
    out = os.path.join(WORK, "probe_%s_%s_rel.ndjson" % (chk.pid, which))
    recs = run_probe(which, args, out, rel=True)
    chk.evaluations += len(recs)
    found = validate_records(chk, module, out, inv, which + "_rel", constants=constants, extra_inv=extra_inv)
    report(chk, found, which + " (release semantics)", args, env_inv=env_inv)


def c16(chk, tier):
    chk.extra["rule"] = ("one forked probe per (signal number, context): the kernel's default action (native) and "
                         "emulate_default_handler from normal context, on a second thread, with the signal masked, with "
                         "another signal blocked and pending, and from inside the signal's own action; distinct = distinct (signal, context, wait status)")
    args = ["--all"] if tier == "thorough" else []
    out = os.path.join(WORK, "probe_C16.ndjson")
    recs = run_probe("default", args, out)
    count(chk, recs, lambda r: (r["e"], r.get("sig"), r.get("ctx"), r.get("status")))
    found = validate_records(chk, "TraceDefault.tla", out, "V_C16", "default", extra_inv=["V_Env"])
    report(chk, found, "default", args, env_inv="V_Env")
    rel_pass(chk, "default", args, "TraceDefault.tla", "V_C16", extra_inv=["V_Env"], env_inv="V_Env")
    # the procedure model with the table the code exhibits
    known = {r["sig"] for r in recs if r["e"] == "name" and r["lib"]}
    kind = {}
    for r in recs:
        if r["e"] == "emulate" and r["ctx"] == "normal" and r["sig"] in known:
            st = r["status"]
            kind[r["sig"]] = "stop" if st.startswith("stopped") else (
                "ignore" if st == "exited:0" else "term")
    libkind = "@" + " @@ ".join('(%d :> "%s")' % (s, k) for s, k in sorted(kind.items()))
    chk.params["default_table"] = {str(k): v for k, v in sorted(kind.items())}
    # what the procedure does to the signal mask before the re-raise, from the masked / handler /
    # other_pending contexts of terminating signals
    term = {s for s, k in kind.items() if k == "term"}
    unblocks = "this"
    for r0 in recs:
        if r0["e"] == "emulate" and r0["sig"] in term:
            if r0["ctx"] in ("masked", "handler") and r0["status"] == "signaled:6" and r0["sig"] != 6:
                unblocks = "none"
            elif r0["ctx"] == "other_pending" and r0["status"] == "signaled:%d" % r0["other"] \
                    and unblocks != "none":
                unblocks = "all"
    chk.params["default_unblocks"] = unblocks
    r = chk.model_check("Default.tla", dict(LibKind=libkind, Unblocks=unblocks),
                        invariants=["EmulationMatchesKernel"], deadlock=False, workers=4,
                        what="emulation procedure x DETAILS table as observed, all numbers 0..66 x 4 contexts")
    if r.violation:
        chk.model_violation(r, "signal_details.rs table and mask handling as observed",
                            {"LibKind": libkind, "Unblocks": unblocks})


def c15(chk, tier):
    chk.extra["rule"] = ("forked probes: every arm/disarm/deliver history from the list x both registration orders x "
                         "exit statuses x termination signals; distinct = distinct (order, history, status, outcome)")
    if tier == "thorough":
        import itertools
        scripts = ["".join(p) for n in range(1, 5) for p in itertools.product("adur", repeat=n)
                   if "r" in p]
        scripts += ["".join(p) for n in range(2, 5) for p in itertools.product("adwr", repeat=n)
                    if "w" in p and "r" in p]
        statuses = ",".join(str(i) for i in range(0, 256, 5)) + ",255"
        sigs = "15,2,3,1"
    else:
        scripts = ["r", "rr", "ar", "dr", "rdr", "ardr", "rrr", "uru", "adrr", "rar", "darr", "urr",
                   "awr", "wr", "awwdr", "wawr", "arar", "aradr"]
        statuses = "0,1,77,127,128,130,255"
        sigs = "15,2,3"
    args = ["--scripts", ";".join(scripts), "--statuses", statuses, "--signals", sigs]
    out = os.path.join(WORK, "probe_C15.ndjson")
    recs = run_probe("flags", args, out)
    count(chk, recs, lambda r: (r["order"], r["script"], r["exit"], r["kind"], r["status"]))
    found = validate_records(chk, "TraceFlag.tla", out, "V_C15", "flags")
    report(chk, found, "flags", args)
    rel_pass(chk, "flags", args, "TraceFlag.tla", "V_C15")
    r = chk.model_check("Flag.tla", dict(MaxLen=6 if tier == "quick" else 8), spec="FSpec",
                        invariants=["FlagsSetAfterDelivery", "ShutdownIffArmed", "FlagFirstDiesAtOnce",
                                    "FlagOnlyNeverDies", "ArmedStaysArmed", "DefaultIffArmed",
                                    "DiesTheRightWay", "ModelAgrees"], workers=4, deadlock=False,
                        what="every history up to MaxLen, 7 registration orders x 2 default-action kinds")
    if r.violation:
        chk.model_violation(r, "Flag.tla", {})
    import props
    props.step(chk, tier)
    # the ordering-dependent part: FlagSB.tla says which outcome the declared SeqCst accesses forbid;
    # the litmus looks for it on the real actions (x86-64, >= 3 CPUs)
    r = chk.model_check("FlagSB.tla", dict(OrdFlagStore="SeqCst", OrdCondLoad="SeqCst"),
                        invariants=["ShutdownSeesArming"], deadlock=False, workers=2,
                        what="store buffering between the flag action, the conditional shutdown of the same "
                             "delivery and an arming application thread, orderings as declared in flag.rs")
    if r.violation:
        chk.model_violation(r, "FlagSB.tla", {})
    out = os.path.join(WORK, "probe_C15_flagsb.ndjson")
    a2 = ["--budget-ms", 20000 if tier == "thorough" else 3000]
    recs2 = run_probe("flagsb", a2, out, rel=True)
    for r2 in recs2:
        chk.evaluations += r2.get("children", 0)
        chk.traces += r2.get("children", 0)
        if r2.get("children", 0) == 0:
            chk.note("store-buffering litmus did not run (needs x86-64 and >= 3 CPUs)")
        chk.sample(r2)
    found = validate_records(chk, "TraceFlagSB.tla", out, "V_C15", "flagsb")
    report(chk, found, "flagsb", a2)


def c14(chk, tier):
    chk.extra["rule"] = ("one forked probe per (entry point, number, fresh / already used process): outcome class, "
                         "dispositions of all 64 signals before/after, captured resources, usability afterwards; "
                         "distinct = distinct (entry, number class, outcome)")
    args = ["--wide"] if tier == "thorough" else ["--all"]
    out = os.path.join(WORK, "probe_C14.ndjson")
    recs = run_probe("reject", args, out)
    count(chk, recs, lambda r: (r["entry"], r["n"], r["status"], r["r"].get("class")))
    found = validate_records(chk, "TraceReject.tla", out, "V_C14", "reject")
    report(chk, found, "reject", args)
    rel_pass(chk, "reject", args, "TraceReject.tla", "V_C14")


def c13(chk, tier):
    _c13(chk, tier)
    import props
    props.step(chk, tier)


def _c13(chk, tier):
    chk.extra["rule"] = ("forked probes with real descriptors: kind x fill level x burst; per probe bytes read back, "
                         "blocking detected by a watchdog alarm, F_GETFD after unregister, descriptor-number reuse; "
                         "plus rejected registrations; distinct = distinct (kind, fill, burst, observations)")
    args = ["--bursts", "1,3,70000" if tier == "thorough" else "1,3"]
    out = os.path.join(WORK, "probe_C13.ndjson")
    recs = run_probe("pipe", args, out)
    count(chk, recs, lambda r: (r.get("kind"), r.get("fill"), r.get("burst"), r["status"], r.get("what")))
    found = validate_records(chk, "TracePipe.tla", out, "V_C13", "pipe")
    report(chk, found, "pipe", args)
    rel_pass(chk, "pipe", args, "TracePipe.tla", "V_C13")
    out2 = os.path.join(WORK, "probe_C13_sibling.ndjson")
    recs2 = run_probe("pipe_sibling", [], out2)
    count(chk, recs2, lambda r: (r["kind"], r["status"], json.dumps(r["r"], sort_keys=True)))
    found = validate_records(chk, "TracePipe.tla", out2, "V_C13", "pipe_sibling")
    report(chk, found, "pipe_sibling", [])
    nb = {r["kind"]: r["r"].get("nonblock") for r in recs
          if r["e"] == "pipe" and r["status"] == "exited:0" and "nonblock" in r["r"]}
    if len(nb) == 4:
        # sockets keep their mode and are woken with send(MSG_DONTWAIT); pipes go through write()
        method = "@" + " @@ ".join('("%s" :> "%s")' % (k, "write" if k.startswith("pipe") else "send")
                                    for k in sorted(nb))
        sets = bool(nb.get("pipe"))
        # close() calls seen on the descriptor per refusing stage (the value furthest from 1 wins)
        stage_of = {"unsettable": "setflags", "os_rejected": "registry_err", "forbidden": "registry_panic"}
        rc = {"setflags": 1, "registry_err": 1, "registry_panic": 1}
        for r0 in recs:
            if r0["e"] == "pipe_reject" and r0["status"] == "exited:0" and r0["what"] in stage_of \
                    and r0["r"].get("was_open") == 1:
                stg = stage_of[r0["what"]]
                if r0["fdkind"] == "opath":
                    stg = "setflags"
                if r0["r"].get("closes", 1) != 1:
                    rc[stg] = r0["r"]["closes"]
        rejc = "@" + " @@ ".join('("%s" :> %d)' % (k, v) for k, v in sorted(rc.items()))
        chk.params["pipe"] = {"nonblock_after_registration": nb, "SetsNonblock": sets, "RejectCloses": rc}
        r = chk.model_check("Pipe.tla", dict(Method=method + ' @@ ("opath" :> "write")', SetsNonblock=sets,
                                             RejectCloses=rejc, Cap=2, MaxOps=6),
                            spec="PSpec", invariants=["WakeNeverBlocks", "ClosedExactlyOnce",
                                                      "BytesLeqDeliveries"],
                            workers=4, deadlock=False,
                            what="all histories of <= 6 operations, 5 descriptor kinds x 3 fill levels, "
                                 "registrations refused at 3 stages")
        if r.violation:
            chk.model_violation(r, "pipe.rs as observed", {"Method": method, "SetsNonblock": sets,
                                                           "RejectCloses": rejc})


def c12(chk, tier):
    chk.extra["rule"] = ("forked probes: add_signal / raise / handle clone+drop / instance drop histories for both "
                         "exfiltrators, with an independent witness action and a leak sweep; plus scheduler "
                         "scenarios with add_signal racing deliveries; distinct = distinct (history, observations)")
    hist = ["A12,R12", "A9,A12,R12,R10", "A-1,A12,R12", "A200,R10,A10,R10", "A65,A65,A12,R12",
            "A9,X", "A12,A12,R12", "H,A9,h,A12,R12,X", "A19,A4,A8,A11,R10,A14,R14,X",
            "A128,A127,A0,R10", "A32,A33,A34,R34", "H,H,A12,h,X,R12",
            "N9,R10,R12", "N-1,N200,N65,R10", "N14,R10,N19,X,R12", "N11,A12,R12",
            "A2147483647,A12,R12", "A1073741824,R10", "A-2147483648,A1000000,R10",
            "A138,A266,R10", "A12,A140,A268,R12",
            # watched signals added in non-ascending order, then added again
            "A14,A12,A12,A14,R12,R14,R10", "A28,A12,A1,A12,A28,A1,A10,R1,R12,R28,R10,X",
            "A12,A1,A9,A1,A12,R1,R12"]
    if tier == "thorough":
        nums = [-3, -1, 0, 1, 4, 8, 9, 11, 14, 19, 31, 32, 33, 34, 64, 65, 100, 127, 128, 129, 131,
                2147483647, -2147483648]
        hist += ["A%d,R10,A12,R12,X" % n for n in nums]
        hist += ["A%d,A%d,R10" % (n, n) for n in nums]
    args = ["--histories", ";".join(hist)]
    out = os.path.join(WORK, "probe_C12.ndjson")
    recs = run_probe("signals", args, out)
    count(chk, recs, lambda r: (r["hist"], r["raw"], r["status"], json.dumps(r["r"].get("steps"))))
    found = validate_records(chk, "TraceSignals.tla", out, "V_C12", "signals")
    report(chk, found, "signals", args)
    rel_pass(chk, "signals", args, "TraceSignals.tla", "V_C12")
    # the last two owners dropped simultaneously on two real threads (std's Arc is invisible to the scheduler)
    out2 = os.path.join(WORK, "probe_C12_dropstress.ndjson")
    a2 = ["--iterations", 20000 if tier == "thorough" else 4000]
    recs2 = run_probe("dropstress", a2, out2)
    for r2 in recs2:
        chk.evaluations += r2["r"].get("iterations", 0)
    found = validate_records(chk, "TraceSignals.tla", out2, "V_C12", "dropstress")
    report(chk, found, "dropstress", a2)
    import p_iterator
    p_iterator.run_iterator(chk, tier)


def c17(chk, tier):
    chk.extra["rule"] = ("synthetic siginfo records for every (signal, si_code) of the grid with poisoned pid/uid bytes "
                         "fed to Origin::extract, and real deliveries (kill, raise, sigqueue, child kill, alarm, POSIX "
                         "timer, child exit/kill/stop) through SignalsInfo<WithOrigin> with independently recorded "
                         "ground truth; distinct = distinct (signal, code | mechanism, result)")
    args = ["--all"] if tier == "thorough" else []
    out = os.path.join(WORK, "probe_C17.ndjson")
    recs = run_probe("origin", args, out)
    count(chk, recs, lambda r: (r["e"], r.get("signo", r.get("sig")), r.get("code", r.get("how")),
                                r.get("cause", r.get("r", {}).get("cause") if isinstance(r.get("r"), dict) else None)))
    found = validate_records(chk, "TraceOrigin.tla", out, "V_C17", "origin")
    report(chk, found, "origin", args)
    rel_pass(chk, "origin", args, "TraceOrigin.tla", "V_C17")
