"""C09 / C10 / C11 (and the iterator part of C03 / C12): exhaustive preemption-bounded schedules of
the real Signals / SignalsInfo / SignalIterator objects under the scheduler, validated by TLC
against TraceIteratorAbs.tla."""
import json
import os

from common import ToolError, WORK, harness, write_replay

INV_OF = {"C03": "V_C03", "C09": "V_C09", "C10": "V_C10", "C11": "V_C11", "C12": "V_C12"}


def scenarios(tier, pid):
    S = []

    def sc(name, props, *args):
        # every scenario is judged by C09, C10, C11 and C12 alike (see p_registry.scenarios); C03 keeps
        # its own selection (deliveries injected inside consumer calls / on other threads)
        common = ("C09", "C10", "C11", "C12")
        if pid in props or (pid in common and any(q in common for q in props)):
            S.append((name, list(args)))
    T = tier == "thorough"
    sc("wait_vs_delivery", ("C09", "C10", "C03"), "--consumer", "w", "--others", "D10")
    sc("wait2_vs_two_signals", ("C09", "C10"), "--consumer", "w,w", "--others", "D10;D12",
       "--watch", "10,12", "--preempt", 3 if T else 2)
    sc("forever_vs_two_deliveries", ("C09", "C10"), "--consumer", "f2", "--others", "D10,D10",
       "--preempt", 3 if T else 2)
    sc("forever_two_signals_two_threads", ("C09", "C10"), "--consumer", "f3", "--others", "D12;D10",
       "--watch", "10,12", "--preempt", 3 if T else 2)
    sc("poll_blocking_two_signals", ("C09", "C11"), "--consumer", "b3", "--others", "D12;D10",
       "--watch", "10,12", "--preempt", 3 if T else 2)
    sc("poll_nonblocking_two_signals", ("C09", "C11") if not T else ("C09", "C10", "C11"), "--consumer", "n4", "--others", "D12;D10",
       "--watch", "10,12", "--preempt", 3 if T else 2)
    sc("forever_nested_two_signals", ("C09", "C10"), "--consumer", "f3", "--watch", "10,12",
       "--nested", 2, "--handler-atomic", "--preempt", 0)
    sc("forever_left_and_entered_again", ("C09", "C10"), "--consumer", "f1,f1,p", "--others", "D10;D12",
       "--watch", "10,12", "--preempt", 2)
    sc("wait_nested_delivery_on_consumer", ("C09", "C10", "C03"), "--consumer", "w,w",
       "--nested", 2 if T else 1, "--preempt", 1)
    sc("pending_nested_delivery_on_consumer", ("C09", "C10", "C03"), "--consumer", "p,p,p",
       "--nested", 2 if T else 1, "--handler-atomic", "--post-points")
    sc("wait_woken_then_nested_other_signal", ("C09", "C10"), "--consumer", "w,w", "--others", "D10",
       "--watch", "10,12", "--nested", 1, "--deliver", "12", "--preempt", 1, "--handler-atomic")
    sc("poll_nonblocking_vs_delivery", ("C09", "C10", "C11"), "--consumer", "n3", "--others", "D10",
       "--preempt", 3)
    sc("poll_blocking_vs_delivery", ("C09", "C10", "C11"), "--consumer", "b2", "--others", "D10,D10",
       "--preempt", 2)
    sc("add_signal_then_delivery", ("C09", "C10", "C12"), "--consumer", "w,w", "--others",
       "a12,D12;D10", "--watch", "10", "--preempt", 2 if T else 1)
    sc("concurrent_add_same_signal", ("C12",), "--consumer", "p", "--others", "a12;a12,h",
       "--watch", "10", "--preempt", 3 if T else 2)
    sc("add_while_other_adds_and_delivery", ("C12",), "--consumer", "p,p", "--others",
       "a12,a14;a14,a12;D10", "--watch", "10", "--preempt", 1)
    sc("raw_concurrent_add_then_delivery", ("C10", "C12"), "--raw", "--consumer", "p,p", "--others",
       "a12,D12;a12", "--watch", "10", "--preempt", 1)
    sc("raw_three_deliveries_vs_pending", ("C10",), "--raw", "--consumer", "p,p,p", "--others",
       "D10,D10,D10", "--preempt", 2)
    # two deliveries on different threads race for the last free slot of the per-signal channel
    sc("raw_two_threads_last_slot", ("C03", "C10"), "--raw", "--consumer", "p", "--others",
       "D10,D10,D10,D10,D10;D10", "--preempt", 1)
    # a delivery of a signal while add_signal for it is still under way (from the instant the
    # library is its disposition)
    sc("raw_add_vs_waiting_delivery", ("C09", "C10"), "--raw", "--consumer", "p,p", "--others", "a12;W12",
       "--watch", "10", "--preempt", 2)
    sc("add_vs_waiting_delivery", ("C09", "C10"), "--consumer", "w,p", "--others", "a12;W12",
       "--watch", "10", "--preempt", 2)
    # a batch handed to another thread is scanned while the instance hands out the next one
    sc("two_scanners_one_delivery", ("C10",), "--consumer", "y,p", "--others", "D10;Y", "--preempt", 2)
    sc("raw_two_scanners", ("C10",), "--raw", "--consumer", "y,p,p", "--others", "D10,D10,D10;Y", "--preempt", 2)
    sc("raw_duplicate_in_initial_set", ("C10", "C12"), "--raw", "--consumer", "p,p", "--others", "D10,D12",
       "--watch", "10,12,10", "--preempt", 1)
    sc("burst_same_signal", ("C10",), "--consumer", "p,p,p", "--others", "D10,D10,D10;D10",
       "--preempt", 2 if T else 1)
    sc("raw_records_two_producers", ("C10", "C09") if T else ("C10",), "--raw", "--consumer", "p,p,p",
       "--others", "D10,D10;D10", "--preempt", 2 if T else 1)
    sc("raw_wait_vs_delivery", ("C10", "C09"), "--raw", "--consumer", "w,w", "--others", "D10,D10",
       "--preempt", 2)
    sc("raw_full_buffer_nested_delivery_in_scan", ("C10",), "--raw", "--consumer", "p,p", "--others",
       "D10,D10,D10,D10,D10", "--nested", 1, "--handler-atomic", "--preempt", 0, "--post-points")
    sc("raw_burst_overflow", ("C10",), "--raw", "--consumer", "p,p", "--others",
       "D10,D10,D10,D10,D10,D10,D10", "--preempt", 1)
    sc("close_vs_blocking_poll", ("C11",), "--consumer", "b2", "--others", "c", "--preempt", 4)
    sc("close_vs_nonblocking_poll", ("C11",), "--consumer", "n2", "--others", "c", "--preempt", 4)
    sc("close_vs_wait", ("C11", "C09"), "--consumer", "w,w", "--others", "c", "--preempt", 4)
    sc("close_vs_forever", ("C11",), "--consumer", "f3", "--others", "c;D10", "--preempt", 2)
    sc("two_closers_and_query", ("C11",), "--consumer", "b2", "--others", "c,q;h,c,q", "--preempt", 2)
    # an earlier add_signal panicked (forbidden number, caught by its caller): close() must still work
    sc("close_after_refused_add_vs_wait", ("C11", "C12"), "--consumer", "w", "--others", "a9,c", "--preempt", 2)
    sc("close_after_refused_add_vs_poll", ("C11", "C12"), "--consumer", "b2", "--others", "a9;c", "--preempt", 2)
    sc("close_then_calls", ("C11",), "--consumer", "w,p,f2", "--others", "c", "--preempt", 1)
    sc("close_vs_poll_and_delivery", ("C11", "C09"), "--consumer", "b3", "--others", "c;D10",
       "--preempt", 2)
    # generated programs (lib/genprog.py): the monitor is program-independent
    import genprog
    for seed in range(24 if T else 6):
        name, gargs = genprog.iterator_program(seed)
        if pid in ("C09", "C10", "C11", "C12", "C03"):
            S.append((name, gargs))
    return S


IT_ACTIONS = ["H_Begin", "H_Store", "H_Wake", "N_Begin", "N_Store", "N_Wake", "Cl_Step", "C_Start",
              "C_Cb", "C_Flush", "C_Scan", "C_ScanDone", "C_PClosed", "C_PPoll", "C_RetPending",
              "C_Return"]

MODEL_INV = {"C09": ["NoLostWakeup", "ParkedIsArmed"], "C10": ["YieldBounded"],
             "C11": ["PendingOnlyIfConsulted", "CloseUnblocks", "ParkedIsArmed", "ParkedWokenByClose"]}


def extract_params():
    """Step orders of the action closure, of pending(), of close(), and whether poll_signal
    re-checks `closed` when poll_pending answered None (observed on one forced schedule)."""
    sig, _, _ = harness("iterator", "--signature")
    stale = []
    c = dict(ActionOrder="store_then_wake", ConsumerOrder="drain_then_scan",
             CloseOrder="flag_then_wake", PollRecheck=True, CbArms=True)

    def pos(steps, pred):
        return next((i for i, x in enumerate(steps) if pred(x)), None)
    a = sig["action"]
    i_store = pos(a, lambda x: x[0] in ("store", "swap", "cas") and x[1].startswith("slot"))
    i_wake = pos(a, lambda x: x[0] == "syscall" and x[1] == "wake")
    if i_store is None or i_wake is None:
        stale.append("action: no slot store / no wake seen")
    else:
        c["ActionOrder"] = "store_then_wake" if i_store < i_wake else "wake_then_store"
    p = sig["pending"]
    i_flush = pos(p, lambda x: x[0] == "syscall" and x[1] == "flush")
    i_scan = pos(p, lambda x: x[1].startswith("slot"))
    if i_flush is None or i_scan is None:
        stale.append("pending(): no flush / no scan seen")
    else:
        c["ConsumerOrder"] = "drain_then_scan" if i_flush < i_scan else "scan_then_drain"
    cl = sig["close"]
    i_flag = pos(cl, lambda x: x[0] == "store" and x[1] == "closed")
    i_cw = pos(cl, lambda x: x[0] == "syscall" and x[1] == "wake")
    if i_flag is None or i_cw is None:
        stale.append("close(): no flag store / no wake seen")
    else:
        c["CloseOrder"] = "flag_then_wake" if i_flag < i_cw else "wake_then_flag"
    # poll_signal: close() between the loop-top check and poll_pending's check
    out = os.path.join(WORK, "it_extract_recheck_%d" % os.getpid())
    harness("iterator", "--consumer", "b1", "--others", "c", "--replay", "s0 s0 s1 s1 s1 s0 s0 s0 s0",
            "--out", out)
    evs = [json.loads(l) for l in open(out + ".abs.ndjson") if l.strip()]
    names = [e["e"] for e in evs]
    try:
        k = names.index("closed_set")
        before = [e for e in evs[:k] if e["e"] == "closed_load"]
        res = next(e["res"] for e in evs if e["e"] == "ret_poll")
        cb = any(e["e"] == "cb" for e in evs)
        if len(before) == 1 and not cb:
            c["PollRecheck"] = (res == 3)
        else:
            stale.append("poll_signal: forced schedule did not hit the window (loads before close: %d)"
                         % len(before))
    except (ValueError, StopIteration):
        stale.append("poll_signal: forced schedule produced no close / no result")
    return c, stale, sig


def model_configs(tier):
    T = tier == "thorough"
    q = [
        ("2 watched signals, 2 handler threads (3 deliveries), 1 delivery nested on the consumer, "
         "consumer: wait, wait, pending",
         dict(Sigs={10, 12}, HandlerThreads={1, 2}, Deliveries="@(1 :> <<10>>) @@ (2 :> <<12, 10>>)",
              Calls=["wait", "wait", "pending"], Closers=set(), MaxNested=1, NestedSigs={12}), 300),
        ("poll_signal blocking / non-blocking / blocking with a concurrent close() and 3 deliveries",
         dict(Sigs={10, 12}, HandlerThreads={1, 2}, Deliveries="@(1 :> <<10>>) @@ (2 :> <<12, 10>>)",
              Calls=["pollb", "polln", "pollb"], Closers={9}, MaxNested=1, NestedSigs={12}), 300),
        ("non-blocking polls and a blocking one, no close, nested delivery of the lower signal",
         dict(Sigs={10, 12}, HandlerThreads={1, 2}, Deliveries="@(1 :> <<12>>) @@ (2 :> <<10, 12>>)",
              Calls=["polln", "polln", "pollb", "polln"], Closers=set(), MaxNested=1,
              NestedSigs={10}), 300),
    ]
    if T:
        q.append(("3 watched signals, 3 handler threads x 2 deliveries, 2 nested, wait x3 + polls, two closers",
                  dict(Sigs={10, 12, 14}, HandlerThreads={1, 2, 3},
                       Deliveries="@(1 :> <<10, 14>>) @@ (2 :> <<12, 10>>) @@ (3 :> <<14, 12>>)",
                       Calls=["wait", "pollb", "polln", "wait", "pending"], Closers={8, 9}, MaxNested=2,
                       NestedSigs={10, 12}), 2400))
    return q


def delivery_model(chk, tier, sig):
    """C12 / C10: Delivery.tla (add_signal under the id table's lock, rejected adds poisoning it, owners
    dropped on any thread) with AddAtomic read off the solo signature of add_signal."""
    add = sig.get("add") or []
    locks = [i for i, x in enumerate(add) if x[0] == "lock" and x[1] == "idsmtx"]
    unlocks = [i for i, x in enumerate(add) if x[0] == "unlock" and x[1] == "idsmtx"]
    reg = [i for i, x in enumerate(add) if x[1].startswith("D.") or x[1].startswith("F.")]
    if len(locks) == 1 and len(unlocks) == 1 and reg and locks[0] < min(reg) and max(reg) < unlocks[0]:
        atomic = True
    elif len(locks) >= 2 and reg and any(u < min(reg) for u in unlocks):
        atomic = False
    else:
        chk.note("model stale for add_signal: the id table's lock could not be located in its solo signature")
        return
    chk.params["add_signal"] = {"AddAtomic": atomic}
    import inductive
    inductive.tlaps_proof(
        chk, "DeliveryProof.tla",
        "Spec => []NoDoubleRegistration: for any number of threads calling add_signal concurrently (incl. calls "
        "refused while the id table's lock is held) an instance never holds two registrations for one signal",
        applies=atomic, why_not="AddAtomic = FALSE: the id table's lock is not held from look-up to recording")
    T = tier == "thorough"
    script = ('@[t \\in {1,2,3} |-> IF t = 1 THEN <<<<"add",12>>, <<"bad",9>>, <<"add",14>>, <<"drop">>>> '
              'ELSE IF t = 2 THEN <<<<"add",12>>, <<"add",14>>' + (', <<"add",12>>' if T else '') + ', <<"drop">>>> '
              'ELSE <<<<"bad",200>>, <<"add",14>>, <<"drop">>>>]')
    r = chk.model_check("Delivery.tla", dict(Threads={1, 2, 3}, Script=script, Sigs={12, 14}, AddAtomic=atomic,
                                             LastOwner="arc"),
                        invariants=["NoDoubleRegistration", "NothingLeft", "TableNamesLive"], workers=4,
                        what="3 owners on 3 threads: adds of 2 signals (incl. re-adds and rejected adds poisoning "
                             "the lock) racing each other and the drops; AddAtomic as extracted",
                        expect=["A_Register", "A_Record", "D_Unreg"])
    if r.violation:
        chk.model_violation(r, "add_signal / drop as extracted", {"AddAtomic": atomic})


def run_model(chk, tier):
    pid = chk.pid
    if pid in ("C12", "C10"):
        sig0, _, _ = harness("iterator", "--signature")
        delivery_model(chk, tier, sig0)
    if pid not in MODEL_INV:
        return
    consts, stale, sig = extract_params()
    chk.params["iterator"] = {"constants": {k: str(v) for k, v in consts.items()}, "stale": stale}
    for s in stale:
        chk.note("model stale for the iterator: %s (the property-level monitor on real schedules is "
                 "the only oracle)" % s)
    if pid == "C09":
        import inductive
        ok_shape = (not stale and consts["ActionOrder"] == "store_then_wake"
                    and consts["ConsumerOrder"] == "drain_then_scan")
        inductive.tlaps_proof(
            chk, "WakeProof.tla",
            "Spec => []NoLostWakeup: for any number of delivering threads, deliveries and watched signals, whenever "
            "the consumer sits in its blocking read and a slot is set, a byte is in the pipe or an action is about to "
            "write one",
            applies=ok_shape, why_not="%s %s" % ({k: consts[k] for k in ("ActionOrder", "ConsumerOrder")}, stale))
    if pid == "C11":
        import inductive
        ok_shape = (not stale and consts["ActionOrder"] == "store_then_wake"
                    and consts["ConsumerOrder"] == "drain_then_scan" and consts["CloseOrder"] == "flag_then_wake")
        inductive.tlaps_proof(
            chk, "CloseProof.tla",
            "Spec => [](NoLostWakeup /\\ CloseUnblocks /\\ ClosedSticky): for any number of delivering threads, signals and "
            "threads calling close(), once some close() has completed a consumer sitting in its blocking read has a "
            "byte to read",
            applies=ok_shape,
            why_not="%s %s" % ({k: consts[k] for k in ("ActionOrder", "ConsumerOrder", "CloseOrder")}, stale))
    if stale:
        return
    for what, cfg, tmo in model_configs(tier):
        c = dict(cfg)
        c.update(consts)
        second = what == model_configs(tier)[1][0]
        r = chk.model_check("Iterator.tla", c, invariants=MODEL_INV[pid], what=what, timeout=tmo,
                            workers=8 if tier == "quick" else 12, deadlock=False,
                            expect=IT_ACTIONS if second else ())
        if r.violation:
            chk.model_violation(r, "iterator protocol as extracted (%s)" % what, c)


def run_iterator(chk, tier):
    pid = chk.pid
    inv = INV_OF[pid]
    run_model(chk, tier)
    todo = [(n, a, False) for n, a in scenarios(tier, pid)]
    # scenarios with the consumer thread only (deliveries nested on it), once more with the build
    # that has release semantics
    todo += [(n + "_rel", a, True) for n, a, _ in list(todo)
             if "--others" not in a and not n.startswith("igen")]
    for name, args, rel in todo:
        out = os.path.join(WORK, "it_%s_%s" % (pid, name))
        stats, _, _ = harness("iterator", *args, "--out", out, "--max", 200000, timeout=3000, rel=rel)
        chk.evaluations += stats["schedules"]
        chk.distinct += stats["distinct_abs_traces"]
        if not stats["exhausted"]:
            chk.exhaustive = False
        abs_path = out + ".abs.ndjson"
        raw = "--raw" in args
        rej, ok_lines = chk.validate_runs(
            "TraceIteratorAbs.tla", abs_path, "abs_" + name, classify=lambda tv: pid,
            constants=dict(HandlerBase=8, HandlerPerAct=8 if raw else 2), invariants=[inv])
        chk.trace_events += ok_lines
        chk.traces += max(stats["distinct_abs_traces"] - len(rej), 0)
        scheds = open(out + ".schedules.txt").read().splitlines()
        for n, what, _cls in rej:
            sched = scheds[n] if n is not None and 0 <= n < len(scheds) else ""
            if isinstance(what, dict) or what is None:
                raise ToolError("iterator scenario %s run %s: monitor could not follow the trace "
                                "(%s)" % (name, n, json.dumps(what)))
            flags = _flags(chk, name)
            path = write_replay(pid, "iterator_%s_%s" % (name, n), {
                "property": pid, "kind": "real_execution_violates_property_monitor",
                "component": "iterator", "harness_args": [str(a) for a in args],
                "schedule": sched, "violated": what, "flags": flags,
                "replay": "harness iterator %s --replay '%s'" % (
                    " ".join("'%s'" % a if ";" in str(a) else str(a) for a in args), sched)})
            chk.violation("iterator scenario %s run %s: %s violated %s; schedule: %s"
                          % (name, n, what, flags, sched[:160]), path,
                          key="%s|%s" % (name, flags))
        if len(chk.samples) < 6:
            with open(abs_path) as f:
                lines = [l for l in f.read().splitlines() if "flag_take" not in l or '"ok":true' in l]
            chk.sample({"scenario": "iterator " + name, "args": [str(a) for a in args],
                        "schedules": stats["schedules"], "stuck_runs": stats["stuck_runs"],
                        "first_abstract_trace": lines[1:18]})


def _flags(chk, name):
    import re
    try:
        out = open(os.path.join(WORK, "tlc_%s_abs_%s" % (chk.pid, name), "out.txt")).read()
    except Exception:
        return ""
    m = re.findall(r"/\\ viol = (\{[^}]*\})", out)
    return " ".join(m[-1].split()) if m else ""
