"""C09 / C10 / C11 (and the iterator part of C03 / C12): exhaustive preemption-bounded schedules of
the real Signals / SignalsInfo / SignalIterator objects under the scheduler, validated by TLC
against TraceIteratorAbs.tla."""
import json
import os

from common import ToolError, WORK, harness, write_replay

INV_OF = {"C03": "V_C03", "C09": "V_C09", "C10": "V_C10", "C11": "V_C11", "C12": "V_C12"}


def scenarios(tier, pid):
    S = []

    def sc(name, props, *args):
        if pid in props:
            S.append((name, list(args)))
    T = tier == "thorough"
    sc("wait_vs_delivery", ("C09", "C10", "C03"), "--consumer", "w", "--others", "D10")
    sc("wait2_vs_two_signals", ("C09", "C10"), "--consumer", "w,w", "--others", "D10;D12",
       "--watch", "10,12", "--preempt", 3 if T else 2)
    sc("forever_vs_two_deliveries", ("C09", "C10"), "--consumer", "f2", "--others", "D10,D10",
       "--preempt", 3 if T else 2)
    sc("forever_two_signals_two_threads", ("C09", "C10"), "--consumer", "f3", "--others", "D12;D10",
       "--watch", "10,12", "--preempt", 3 if T else 2)
    sc("poll_blocking_two_signals", ("C09", "C11"), "--consumer", "b3", "--others", "D12;D10",
       "--watch", "10,12", "--preempt", 3 if T else 2)
    sc("poll_nonblocking_two_signals", ("C09", "C11") if not T else ("C09", "C10", "C11"), "--consumer", "n4", "--others", "D12;D10",
       "--watch", "10,12", "--preempt", 3 if T else 2)
    sc("forever_nested_two_signals", ("C09", "C10"), "--consumer", "f3", "--watch", "10,12",
       "--nested", 2, "--handler-atomic", "--preempt", 0)
    sc("wait_nested_delivery_on_consumer", ("C09", "C10", "C03"), "--consumer", "w,w",
       "--nested", 2 if T else 1, "--preempt", 1)
    sc("pending_nested_delivery_on_consumer", ("C09", "C10", "C03"), "--consumer", "p,p,p",
       "--nested", 2 if T else 1, "--handler-atomic", "--post-points")
    sc("wait_woken_then_nested_other_signal", ("C09", "C10"), "--consumer", "w,w", "--others", "D10",
       "--watch", "10,12", "--nested", 1, "--deliver", "12", "--preempt", 1, "--handler-atomic")
    sc("poll_nonblocking_vs_delivery", ("C09", "C10", "C11"), "--consumer", "n3", "--others", "D10",
       "--preempt", 3)
    sc("poll_blocking_vs_delivery", ("C09", "C10", "C11"), "--consumer", "b2", "--others", "D10,D10",
       "--preempt", 2)
    sc("add_signal_then_delivery", ("C09", "C10", "C12"), "--consumer", "w,w", "--others",
       "a12,D12;D10", "--watch", "10", "--preempt", 2 if T else 1)
    sc("concurrent_add_same_signal", ("C12",), "--consumer", "p", "--others", "a12;a12,h",
       "--watch", "10", "--preempt", 3 if T else 2)
    sc("add_while_other_adds_and_delivery", ("C12",), "--consumer", "p,p", "--others",
       "a12,a14;a14,a12;D10", "--watch", "10", "--preempt", 1)
    sc("burst_same_signal", ("C10",), "--consumer", "p,p,p", "--others", "D10,D10,D10;D10",
       "--preempt", 2 if T else 1)
    sc("raw_records_two_producers", ("C10", "C09") if T else ("C10",), "--raw", "--consumer", "p,p,p",
       "--others", "D10,D10;D10", "--preempt", 2 if T else 1)
    sc("raw_wait_vs_delivery", ("C10", "C09"), "--raw", "--consumer", "w,w", "--others", "D10,D10",
       "--preempt", 2)
    sc("raw_full_buffer_nested_delivery_in_scan", ("C10",), "--raw", "--consumer", "p,p", "--others",
       "D10,D10,D10,D10,D10", "--nested", 1, "--handler-atomic", "--preempt", 0, "--post-points")
    sc("raw_burst_overflow", ("C10",), "--raw", "--consumer", "p,p", "--others",
       "D10,D10,D10,D10,D10,D10,D10", "--preempt", 1)
    sc("close_vs_blocking_poll", ("C11",), "--consumer", "b2", "--others", "c", "--preempt", 4)
    sc("close_vs_nonblocking_poll", ("C11",), "--consumer", "n2", "--others", "c", "--preempt", 4)
    sc("close_vs_wait", ("C11", "C09"), "--consumer", "w,w", "--others", "c", "--preempt", 4)
    sc("close_vs_forever", ("C11",), "--consumer", "f3", "--others", "c;D10", "--preempt", 2)
    sc("two_closers_and_query", ("C11",), "--consumer", "b2", "--others", "c,q;h,c,q", "--preempt", 2)
    sc("close_then_calls", ("C11",), "--consumer", "w,p,f2", "--others", "c", "--preempt", 1)
    sc("close_vs_poll_and_delivery", ("C11", "C09"), "--consumer", "b3", "--others", "c;D10",
       "--preempt", 2)
    return S


def run_iterator(chk, tier):
    pid = chk.pid
    inv = INV_OF[pid]
    for name, args in scenarios(tier, pid):
        out = os.path.join(WORK, "it_%s_%s" % (pid, name))
        stats, _, _ = harness("iterator", *args, "--out", out, "--max", 200000, timeout=3000)
        chk.evaluations += stats["schedules"]
        chk.distinct += stats["distinct_abs_traces"]
        if not stats["exhausted"]:
            chk.exhaustive = False
        abs_path = out + ".abs.ndjson"
        raw = "--raw" in args
        rej, ok_lines = chk.validate_runs(
            "TraceIteratorAbs.tla", abs_path, "abs_" + name, classify=lambda tv: pid,
            constants=dict(HandlerBase=8, HandlerPerAct=8 if raw else 2), invariants=[inv])
        chk.trace_events += ok_lines
        chk.traces += max(stats["distinct_abs_traces"] - len(rej), 0)
        scheds = open(out + ".schedules.txt").read().splitlines()
        for n, what, _cls in rej:
            sched = scheds[n] if n is not None and 0 <= n < len(scheds) else ""
            if isinstance(what, dict) or what is None:
                raise ToolError("iterator scenario %s run %s: monitor could not follow the trace "
                                "(%s)" % (name, n, json.dumps(what)))
            flags = _flags(chk, name)
            path = write_replay(pid, "iterator_%s_%s" % (name, n), {
                "property": pid, "kind": "real_execution_violates_property_monitor",
                "component": "iterator", "harness_args": [str(a) for a in args],
                "schedule": sched, "violated": what, "flags": flags,
                "replay": "harness iterator %s --replay '%s'" % (
                    " ".join("'%s'" % a if ";" in str(a) else str(a) for a in args), sched)})
            chk.violation("iterator scenario %s run %s: %s violated %s; schedule: %s"
                          % (name, n, what, flags, sched[:160]), path,
                          key="%s|%s" % (name, flags))
        if len(chk.samples) < 6:
            with open(abs_path) as f:
                lines = [l for l in f.read().splitlines() if "flag_take" not in l or '"ok":true' in l]
            chk.sample({"scenario": "iterator " + name, "args": [str(a) for a in args],
                        "schedules": stats["schedules"], "stuck_runs": stats["stuck_runs"],
                        "first_abstract_trace": lines[1:18]})


def _flags(chk, name):
    import re
    try:
        out = open(os.path.join(WORK, "tlc_%s_abs_%s" % (chk.pid, name), "out.txt")).read()
    except Exception:
        return ""
    m = re.findall(r"/\\ viol = (\{[^}]*\})", out)
    return m[-1] if m else ""
