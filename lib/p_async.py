"""Runtime adapters (signal-hook-tokio, signal-hook-async-std, signal-hook-mio 0.7 / 0.8 / 1.0), part of
C09 / C10 / C11: operation histories run against the real adapters in forked children
(harness_async, built from /repo's working tree without hooks), validated by TLC against the monitor
of AsyncOps.tla (TraceAsync.tla); the callback's behaviour (does a Pending answer leave the caller's
waker armed? does it read before a readiness event?) is extracted from those runs and TLC checks the
implementation model of AsyncOps.tla and the non-blocking poller of Iterator.tla with it."""
import itertools
import json
import os
import shutil
import subprocess
import time

from common import ToolError, WORK, write_replay, log
from tlcrun import LANE, LANE_DIR, REPO, VERIF

ASYNC_DIR = os.path.join(LANE_DIR, "harness_async") if LANE else os.path.join(VERIF, "harness_async")
ASYNC_BIN = os.path.join(ASYNC_DIR, "target", "debug", "sighook-verif-async")
INV_OF = {"C09": "V_C09", "C10": "V_C10", "C11": "V_C11"}
ADAPTERS = ["tokio", "asyncstd", "mio10", "mio08", "mio07"]


def build():
    src = os.path.join(VERIF, "harness_async")
    if LANE:
        os.makedirs(ASYNC_DIR, exist_ok=True)
        if os.path.isdir(os.path.join(ASYNC_DIR, "src")):
            shutil.rmtree(os.path.join(ASYNC_DIR, "src"))
        shutil.copytree(os.path.join(src, "src"), os.path.join(ASYNC_DIR, "src"))
        shutil.copytree(os.path.join(src, ".cargo"), os.path.join(ASYNC_DIR, ".cargo"), dirs_exist_ok=True)
        with open(os.path.join(src, "Cargo.toml")) as f:
            toml = f.read().replace('"/repo', '"' + REPO)
        with open(os.path.join(ASYNC_DIR, "Cargo.toml"), "w") as f:
            f.write(toml)
    lock = os.path.join(ASYNC_DIR, "Cargo.lock")
    if not os.path.exists(lock):
        shutil.copy(os.path.join(REPO, "Cargo.lock"), lock)
    env = dict(os.environ)
    env["CARGO_NET_OFFLINE"] = "true"
    t0 = time.time()
    p = subprocess.run(["cargo", "build", "--offline"], cwd=ASYNC_DIR, env=env, stdout=subprocess.PIPE,
                       stderr=subprocess.STDOUT, text=True)
    if p.returncode != 0:
        raise ToolError("harness_async build failed:\n" + "\n".join(p.stdout.splitlines()[-40:]))
    return time.time() - t0


def scripts(tier):
    S = ["P,R10,T,P,P,T,P",                      # parked, delivery, woken, signal, parked again
         "R10,P,P,T,P",                          # delivery before the first poll
         "R10,T,P,P,T",                          # the reactor sees the byte before anybody polls
         "P,R12,R10,T,P,P,P,T",                  # two signals, one wake-up
         "P,R10,T,P,R10,P,P,T,P",                # delivery between polls of one batch
         "P,R12,T,P,R10,T,P,P,T",                # lower number delivered after the scan passed it
         "P,C,T,P,P",                            # close wakes a parked task; the stream ends, stays ended
         "P,C,T,P,R10,T,P,R12,P,P",              # deliveries after the stream has ended: it stays ended
         "R10,C,P,P,R10,P",
         "C,P,T,P",                              # closed before the first poll
         "P,R10,C,T,P,P",                        # delivery then close
         "R10,R10,R10,P,P,T,P",                  # collation
         "P,r10,T,P,P,T",                        # delivery on another thread
         "P,A1,R1,T,P,P,T",                      # add_signal, then that signal
         "P,R10,T,P,P,R12,T,P,P,C,T,P",          # a long life
         "P,T,R10,T,P,P",                        # an idle turn first
         "P,P,R10,T,P",                          # polled twice while pending (waker replaced)
         "R10,P,R12,P,P,T,R10,T,P,P,T"]
    if tier == "thorough":
        alphabet = ["P", "R10", "R12", "C", "T"]
        seen = set(S)
        for n in (3, 4):
            for p in itertools.product(alphabet, repeat=n):
                s = ",".join(p) + ",T,P,P,T"
                if s not in seen and "P" in p:
                    seen.add(s)
                    S.append(s)
    return S


def run_async(chk, tier):
    secs = build()
    log("harness_async built from the working tree in %.1fs" % secs)
    out = os.path.join(WORK, "async_%s.ndjson" % chk.pid)
    sc = scripts(tier)
    args = [ASYNC_BIN, "--scripts", ";".join(sc), "--adapters", ",".join(ADAPTERS)]
    with open(out, "w") as f:
        p = subprocess.run(args, stdout=f, stderr=subprocess.PIPE, text=True, timeout=3000)
    if p.returncode != 0:
        raise ToolError("harness_async exited %d: %s" % (p.returncode, p.stderr[-1500:]))
    recs = [json.loads(l) for l in open(out) if l.strip()]
    runs = sum(1 for r in recs if r["e"] == "reset")
    chk.traces += runs
    chk.evaluations += runs
    chk.trace_events += len(recs)
    chk.distinct += len({(r["adapter"], r["script"]) for r in recs if r["e"] == "reset"})
    chk.sample({"adapter_history": [r for r in recs[:9]]})
    inv = INV_OF[chk.pid]
    consts = {"Sigs": {1, 10, 12}, "Watched0": {10, 12}, "MaxOps": 0, "CbArms": True, "TryFirst": True}
    # number the runs so that a rejection can be attributed
    idx = -1
    lines = []
    for r in recs:
        if r["e"] == "reset":
            idx += 1
            r["n"] = idx
        lines.append(json.dumps(r, separators=(',', ':')))
    with open(out, "w") as f:
        f.write("\n".join(lines) + "\n")
    rej, _ = chk.validate_runs("TraceAsync.tla", out, "async", lambda tv: inv, constants=consts,
                               invariants=[inv], max_rejections=6)
    starts = [r for r in recs if r["e"] == "reset"]
    for n, what, _cls in rej:
        run = starts[n] if n is not None and n < len(starts) else {}
        body = []
        take = False
        for r in recs:
            if r["e"] == "reset":
                take = r.get("n") == n
            if take:
                body.append(r)
        path = write_replay(chk.pid, "async_%s" % n, {
            "property": chk.pid, "kind": "adapter_history_rejected_by_monitor", "violated": what,
            "adapter": run.get("adapter"), "script": run.get("script"), "records": body,
            "replay": "%s --adapters %s --scripts '%s'" % (ASYNC_BIN, run.get("adapter"), run.get("script"))})
        chk.violation("runtime adapter %s, history %s: monitor AsyncOps.tla reports %s" % (
            run.get("adapter"), run.get("script"), what), path,
            key="async|%s|%s" % (run.get("adapter"), run.get("script")))
    # --- what the callbacks do, from the records
    params = {}
    for ad in ("tokio", "asyncstd"):
        arms = None
        tryfirst = None
        cur = None
        prev = None
        for r in recs:
            if r["e"] == "reset":
                cur = r["adapter"]
                hist = []
                continue
            if cur != ad or r["e"] != "op":
                continue
            hist.append(r)
            # P -> pending, then a delivery, then a turn that woke the waker: the callback armed it
            if len(hist) >= 3 and hist[-3]["op"] == "P" and hist[-3]["res"] == "pending" \
                    and hist[-2]["op"] == "R" and hist[-1]["op"] == "T":
                arms = (hist[-1]["n"] > 0) if arms is None else (arms and hist[-1]["n"] > 0)
            # a delivery and a poll right after it with no turn in between: a signal means the
            # callback read before any readiness event
            if len(hist) == 2 and hist[0]["op"] == "R" and hist[1]["op"] == "P":
                tryfirst = hist[1]["res"] == "sig"
        params[ad] = {"CbArms": arms, "TryFirst": tryfirst}
    chk.params["adapter_callbacks"] = params
    # --- the implementation model with what was observed
    for ad, pr in params.items():
        if pr["CbArms"] is None or pr["TryFirst"] is None:
            chk.note("adapter %s: callback behaviour could not be read off the histories; no model verdict" % ad)
            continue
        r = chk.model_check("AsyncOps.tla", dict(Sigs={10, 12}, Watched0={10}, MaxOps=7 if tier == "quick" else 9,
                                                 CbArms=pr["CbArms"], TryFirst=pr["TryFirst"]),
                            invariants=["Refines", "ParkedIsArmed"], deadlock=False, workers=4,
                            name="%s_AsyncOps_%s" % (chk.pid, ad),
                            what="poll_signal + %s callback as observed: every history of <= %d operations over "
                                 "poll / deliver x2 / add / close / reactor turn" % (ad, 7 if tier == "quick" else 9),
                            expect=["ImplPoll", "ImplClose", "ImplTurn"])
        if r.violation:
            chk.model_violation(r, "poll_signal with the %s adapter's readiness callback as observed" % ad,
                                {"CbArms": pr["CbArms"], "TryFirst": pr["TryFirst"]})
        # the same callback inside the step-level protocol model: polls racing deliveries and close()
        if chk.pid in ("C09", "C11"):
            import p_iterator
            ic, istale, _ = p_iterator.extract_params()
            if not istale:
                what, cfg, tmo = p_iterator.model_configs(tier)[1]
                c = dict(cfg)
                c.update(ic)
                c["CbArms"] = pr["CbArms"]
                r = chk.model_check("Iterator.tla", c, invariants=["ParkedIsArmed", "ParkedWokenByClose", "NoLostWakeup"],
                                    what="Iterator.tla with the %s callback (CbArms as observed): %s" % (ad, what),
                                    timeout=tmo, deadlock=False, workers=6, name="%s_Iterator_%s" % (chk.pid, ad))
                if r.violation:
                    chk.model_violation(r, "iterator protocol with the %s adapter's callback" % ad, c)
