"""Seeded generators of small concurrent programs for the scheduler drivers. The property-level
monitors are program-independent, so any program can be validated; hand-written scenarios cover the
situations we thought of, generated ones the combinations we did not."""
import random


def registry_program(seed):
    """-> (name, harness args). Two signals (10, 12); tags are unique; 90+ = panicking destructor."""
    rnd = random.Random(seed)
    sigs = [10, 12]
    pre, tags, live_sig = [], [], set()
    tag = 0
    for s in sigs:
        for _ in range(rnd.choice([0, 1, 1, 2])):
            tag += 1
            t = tag if rnd.random() > 0.08 else 90 + tag
            pre.append("R%d:%d" % (s, t))
            tags.append(t)
            live_sig.add(s)
    nthreads = rnd.choice([2, 2, 3])
    threads = []
    registering = set()   # signals some thread registers
    plan = []
    for _ in range(nthreads):
        ops = []
        for _ in range(rnd.choice([1, 2, 2, 3])):
            k = rnd.choice("RRUUSDDDXN")
            if k == "R":
                tag += 1
                s = rnd.choice(sigs)
                ops.append(("R", s, tag))
                tags.append(tag)
                registering.add(s)
            elif k == "U":
                ops.append(("U", rnd.choice(tags) if tags and rnd.random() > 0.1 else 77))
            elif k == "S":
                ops.append(("S", rnd.choice(sigs)))
            elif k == "D":
                ops.append(("D", rnd.choice(sigs)))
            elif k == "X":
                tag += 1
                ops.append(("X", rnd.choice([9, 19, 11]), tag))
            else:
                tag += 1
                ops.append(("N", rnd.choice([9, 19]), tag))
        plan.append(ops)
    # a panicking destructor (tags 90+) must be released inside a call that catches it: only
    # unregister(id) does in the driver; make sure it happens and that no unregister_signal competes
    bad = [t for t in tags if t >= 90]
    for t in bad:
        sig_of = [int(p[1:].split(":")[0]) for p in pre if p.endswith(":%d" % t)][0]
        for ops in plan:
            ops[:] = [o for o in ops if not (o[0] == "S" and o[1] == sig_of)]
        if not any(o[0] == "U" and o[1] == t for ops in plan for o in ops):
            rnd.choice(plan).insert(0, ("U", t))
    out = []
    for ops in plan:
        toks = []
        own = set()       # signals this thread has itself registered by now
        for op in ops:
            if op[0] == "R":
                own.add(op[1])
            if op[0] == "D":
                s = op[1]
                if s in live_sig or s in own:
                    toks.append("D%d" % s)
                elif any(o[0] == "R" and o[1] == s for other in plan if other is not ops for o in other):
                    toks.append("W%d" % s)
                # else: the library never handles it: no delivery to speak of
            elif op[0] in ("R", "X", "N"):
                toks.append("%s%d:%d" % op)
            else:
                toks.append("%s%d" % op)
        if toks:
            out.append(",".join(toks))
    if not out:
        out = ["S10"]
    args = ["--threads", ";".join(out)]
    if pre:
        args += ["--pre", ",".join(pre)]
    prev = []
    for s in sigs:
        if s not in live_sig and rnd.random() < 0.6:
            prev.append("%d:%s" % (s, rnd.choice(["plain", "info", "plainR", "infoR", "ign"])))
    if prev:
        args += ["--prev", ",".join(prev)]
    if rnd.random() < 0.4:
        args += ["--nested", 1, "--signals", ",".join(str(s) for s in sigs)]
        args += ["--preempt", rnd.choice([0, 1])]
    else:
        args += ["--preempt", rnd.choice([1, 2])]
    return "gen%d" % seed, args


def iterator_program(seed):
    """-> (name, harness args) for the iterator driver: one consumer thread, 1-2 other threads."""
    rnd = random.Random(1000 + seed)
    watch = rnd.choice([[10], [10, 12], [10, 12]])
    raw = rnd.random() < 0.3
    cons_ops = ["w", "p", "p"] if raw else ["w", "p", "f1", "f2", "b1", "b2", "n1", "n2", "n3"]
    consumer = [rnd.choice(cons_ops) for _ in range(rnd.choice([1, 2, 2, 3]))]
    others = []
    for _ in range(rnd.choice([1, 1, 2])):
        ops, own = [], set()
        for _ in range(rnd.choice([1, 2, 2, 3])):
            k = rnd.choice(["D", "D", "D", "c", "a", "h", "q"])
            if k == "D":
                cands = [s for s in (10, 12) if s in watch or s in own]
                ops.append("D%d" % rnd.choice(cands))
            elif k == "a":
                ops.append("a12")
                own.add(12)
            else:
                ops.append(k)
        others.append(",".join(ops))
    args = ["--consumer", ",".join(consumer), "--others", ";".join(others),
            "--watch", ",".join(map(str, watch))]
    if raw:
        args.insert(0, "--raw")
    if rnd.random() < 0.3:
        args += ["--nested", 1, "--preempt", rnd.choice([0, 1])]
        if rnd.random() < 0.5:
            args += ["--handler-atomic"]
        if rnd.random() < 0.4:
            args += ["--post-points"]
    else:
        args += ["--preempt", rnd.choice([1, 2])]
    return "igen%d" % seed, args


def channel_program(seed):
    """-> (name, senders, sends, receivers, recvs, prefill, extra args, spurious budget)"""
    rnd = random.Random(5000 + seed)
    while True:
        s = rnd.choice([0, 1, 1, 2])
        r = rnd.choice([0, 1, 1, 2])
        if s + r == 0:
            continue
        ns = rnd.choice([1, 1, 2]) if s else 0
        nr = rnd.choice([1, 2, 3, 4]) if r else 0
        pre = rnd.choice([0, 1, 3, 4, 5])
        nested = rnd.choice([0, 0, 1])
        spur = rnd.choice([0, 0, 1, 2])
        threads = s + r
        size = s * ns + r * nr
        if size > 6:
            continue
        preempt = rnd.choice([1, 2]) if threads > 1 else 0
        if threads > 2:
            preempt = min(preempt, 1) if size > 3 else preempt
        extra = ["--preempt", preempt]
        if nested:
            extra += ["--nested", 1]
            if rnd.random() < 0.5:
                extra += ["--post-points"]
            if preempt > 1:
                extra[1] = 1
        return "cgen%d" % seed, s, ns, r, nr, pre, extra, spur
