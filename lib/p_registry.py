"""Registry part of C01-C05, C18: exhaustive (preemption-bounded) schedules of the real global
registry under the scheduler, validated against the property-level monitor TraceRegistryAbs.tla;
the mid-level model Registry.tla with the step orders extracted from the running code."""
import json
import os

from common import WORK, harness, write_replay

INV_OF = {"C01": "V_C01", "C02": "V_C02", "C03": "V_C03", "C04": "V_C04", "C05": "V_C05",
          "C18": "V_C18"}


def scenarios(tier, pid):
    """(name, harness args). Each property gets the scenarios that exercise it."""
    S = []

    def sc(name, props, *args):
        # every scenario is judged by every property of the component whose monitor can speak about
        # it (the seeded-bug rounds kept finding "the same change, caught only by the neighbour's
        # scenarios"); `props` only keeps C04 (needs a previous handler) and C03 (needs a delivery
        # injected inside a mutator or a handler-atomic run) apart
        common = ("C01", "C02", "C05", "C18")
        if pid in props or (pid in common and any(q in common for q in props)):
            S.append((name, list(args)))
    A = ("C01", "C02", "C03", "C05", "C18")
    sc("unreg_vs_delivery", A, "--threads", "U1;D10", "--pre", "R10:1,R10:2", "--preempt", 3)
    sc("reg_vs_delivery", A, "--threads", "R10:3;D10", "--pre", "R10:1", "--preempt", 3)
    sc("unregsig_vs_delivery", A, "--threads", "S10;D10", "--pre", "R10:1,R10:2", "--preempt", 2)
    sc("nested_on_mutator", A + ("C04",), "--threads", "R10:1,U1,R10:2", "--nested", 1)
    sc("two_removers_one_delivery", ("C01", "C02", "C18"), "--threads", "U1;U2;D10",
       "--pre", "R10:1,R10:2", "--preempt", 2)
    sc("two_signals", ("C02", "C05", "C18"), "--threads", "R12:3,U3;D10;D12",
       "--pre", "R10:1,R12:2", "--preempt", 2)
    sc("first_regs_two_signals_prev", ("C04", "C18", "C01"), "--threads", "R10:1;R12:2",
       "--prev", "10:info,12:plain", "--nested", 1, "--signals", "10,12", "--preempt", 2)
    sc("first_reg_prev_info_two_deliveries", ("C04",), "--threads", "R10:1,R10:2",
       "--prev", "10:info", "--nested", 2, "--preempt", 1)
    sc("first_reg_prev_plain", ("C04",), "--threads", "R12:1;D10", "--pre", "R10:9",
       "--prev", "12:plainR,10:infoR", "--nested", 1, "--signals", "12", "--preempt", 2)
    sc("delivery_thread_vs_two_first_regs", ("C04",), "--threads", "R10:1;R12:2;W10",
       "--prev", "10:infoR,12:plain", "--preempt", 3 if tier == "thorough" else 2)
    sc("delivery_thread_vs_two_first_regs_b", ("C04",), "--threads", "R12:2;R10:1;W10",
       "--prev", "10:plain,12:info", "--preempt", 3 if tier == "thorough" else 2)
    # other code replaces the handler with sigaction while the first registration is under way:
    # the library chains to the one it really displaced
    sc("foreign_sigaction_during_first_registration", ("C04",), "--threads", "R10:1;F10:2,W10,W10",
       "--prev", "10:plain", "--preempt", 2)
    sc("foreign_sigaction_during_first_registration_b", ("C04",), "--threads", "R10:1,D10;F10:1",
       "--prev", "10:infoR", "--preempt", 2)
    sc("prev_after_all_actions_removed", ("C04", "C02"), "--threads",
       "R10:1,R12:2,U1,D10,D12,S12,D12,D10,R10:3,D10", "--prev", "10:plain,12:info")
    sc("unregsig_vs_other_mutators", ("C18", "C01", "C05"), "--threads", "S10,R10:3;R12:4,U1;U2",
       "--pre", "R10:1,R10:2", "--preempt", 2)
    sc("panicking_destructor_then_more_calls", ("C18",), "--threads", "U90,R10:2,U2;R12:3",
       "--pre", "R10:90", "--preempt", 1)
    sc("prev_ignored_default", ("C04",), "--threads", "R10:1;R12:2", "--prev", "10:ign",
       "--nested", 2 if tier == "thorough" else 1, "--signals", "10,12", "--preempt", 1)
    sc("forbidden_panic_while_other_registers", ("C18", "C01", "C05"),
       "--threads", "X9:5,R10:6;R10:1,U1", "--preempt", 2)
    sc("stale_and_fresh_ids", ("C05", "C01"), "--threads", "R10:1,U1,U1,R10:2,R12:3,S10,S10,U3",
       "--nested", 1)
    # the survivors keep their registration order whichever action is removed (oldest, middle, newest)
    sc("order_after_removing_older_actions", ("C02", "C05"), "--threads",
       "R10:1,R10:2,R10:3,R10:4,U1,D10,U3,D10,R10:5,D10,U2,D10,R10:6,R10:7,U5,D10")
    sc("stale_id_after_reregistration", ("C02", "C05"), "--threads", "R10:1,R10:2,U2,R10:3,U2,D10,U1,U3")
    sc("poisoned_writer_then_concurrent_mutators", ("C01", "C02", "C05", "C18"), "--threads",
       "U90,U1,D10;R12:5", "--pre", "R10:90,R10:1", "--preempt", 2)
    sc("poisoned_writer_then_concurrent_registrations", ("C02", "C05"), "--threads",
       "U90,R10:3,D10;R10:4,D10", "--pre", "R10:90", "--preempt", 2)
    sc("failed_os_registration_then_more_calls", ("C18", "C05"), "--threads", "N9:5,R10:1,U1;N19:6,R12:2",
       "--preempt", 1)
    sc("handler_at_every_point", ("C03", "C01", "C02"), "--threads", "R10:1,U1,R12:2,S12,U7",
       "--pre", "R10:7,R10:8", "--nested", 1, "--handler-atomic", "--signals", "10,12")
    if tier == "thorough":
        sc("unreg_vs_delivery_p4", A, "--threads", "U1;D10", "--pre", "R10:1,R10:2",
           "--preempt", 4)
        sc("reg_unreg_vs_two_deliveries", A, "--threads", "R10:3,U1;D10;D10", "--pre",
           "R10:1,R10:2", "--preempt", 2)
        sc("nested2_on_mutator", A + ("C04",), "--threads", "R10:1,U1,R10:2,S10", "--nested", 2,
           "--preempt", 1)
        sc("two_mutators_nested", A, "--threads", "R10:3,U1;U2,R10:4", "--pre", "R10:1,R10:2",
           "--nested", 1, "--preempt", 2)
        sc("first_regs_two_signals_prev_p3", ("C04", "C18"), "--threads", "R10:1;R12:2",
           "--prev", "10:info,12:plain", "--nested", 2, "--signals", "10,12", "--preempt", 2)
    # generated programs (lib/genprog.py): the monitor is program-independent
    import genprog
    for seed in range(60 if tier == "thorough" else 8):
        name, args = genprog.registry_program(seed)
        if pid in ("C01", "C02", "C03", "C05", "C18") or (pid == "C04" and "--prev" in args):
            S.append((name, args))
    return S


RG_ACTIONS = ["M_Start", "M_Lock", "M_Clone", "M_Detect", "M_FPublish", "M_FFree", "M_Sigaction",
              "M_Publish", "M_Free", "M_Return", "Deliver", "H_OpenF", "H_OpenD", "H_Lookup", "H_Act",
              "H_Close"]

MODEL_INV = {
    "C01": ["NoUseAfterFree", "Quiescent"],
    "C02": ["OwnSignalOnly"],
    "C03": ["HandlerNeverBlocked"],
    "C04": ["PrevChained"],
    "C18": ["LockOrder"],
}


def extract_params():
    """Step orders of the dispatcher and of a first registration, from their solo runs."""
    sig, _, _ = harness("registry", "--signature")
    stale = []
    c = dict(DispatchOrder="F_then_D", RegisterOrder="fallback_then_sigaction", FallbackGrace=True)
    disp = [x for x in sig["dispatch"] if x[0] != "sigaction"]
    firstF = next((i for i, x in enumerate(disp) if x[1].startswith("F.")), None)
    firstD = next((i for i, x in enumerate(disp) if x[1].startswith("D.")), None)
    if firstF is None or firstD is None:
        stale.append("dispatcher does not read both half-locks: %s" % [(x[0], x[1]) for x in disp])
    else:
        c["DispatchOrder"] = "F_then_D" if firstF < firstD else "D_then_F"
    reg = sig["register_first"]
    names = [(x[0], x[1]) for x in reg]
    if ("sigaction", "kernel") not in names:
        stale.append("first registration: no disposition switch observed")
    elif ("swap", "F.data") not in names:
        stale.append("first registration: the fallback is never stored")
    else:
        i_sa, i_f = names.index(("sigaction", "kernel")), names.index(("swap", "F.data"))
        c["RegisterOrder"] = "fallback_then_sigaction" if i_f < i_sa else "sigaction_then_fallback"
        i_unl = names.index(("unlock", "F.mtx")) if ("unlock", "F.mtx") in names else len(names)
        barrier = [n for n in names[i_f + 1:i_unl] if n[0] == "load" and n[1].startswith("F.lock")]
        if len(barrier) >= 2:
            c["FallbackGrace"] = True
        elif len(barrier) == 0:
            c["FallbackGrace"] = False
        else:
            stale.append("first registration: unmodelled barrier shape after the fallback store")
        if ("swap", "D.data") not in names or names.index(("swap", "D.data")) < max(i_sa, i_f):
            stale.append("first registration: the slot is published before the fallback / "
                         "sigaction steps")
    return c, stale, sig


def script(ops_by_thread):
    """TLA+ expression for the Script constant."""
    def op(o):
        if o[0] == "reg":
            return '<<"reg", %d, %d>>' % (o[1], o[2])
        if o[0] == "unreg":
            return '<<"unreg", %d>>' % o[1]
        return '<<"unregsig", %d>>' % o[1]
    ms = sorted(ops_by_thread)
    parts = " @@ ".join("(%d :> <<%s>>)" % (m, ", ".join(op(o) for o in ops_by_thread[m]))
                        for m in ms)
    return "@" + parts


def prevkind(d):
    return "@" + " @@ ".join('(%d :> "%s")' % (k, v) for k, v in sorted(d.items()))


def model_configs(tier):
    R, U, S = "reg", "unreg", "unregsig"
    q = [
        ("2 signals with foreign info/plain handlers, 2 registering threads (one also removes), "
         "a third thread, 2 deliveries anywhere (nested allowed)",
         dict(Sigs={10, 12}, Mutators={1, 2}, Others={3},
              Script=script({1: [(R, 10, 1), (U, 1)], 2: [(R, 12, 2)]}),
              PrevKind=prevkind({10: "info", 12: "plain"}), MaxDeliveries=2, MaxNested=1), 600),
        ("1 signal previously ignored + 1 default, register twice / remove / unregister_signal, "
         "2 deliveries",
         dict(Sigs={10, 12}, Mutators={1, 2}, Others=set(),
              Script=script({1: [(R, 10, 1), (R, 10, 2), (U, 1)], 2: [(R, 12, 3), (S, 12)]}),
              PrevKind=prevkind({10: "ign", 12: "dfl"}), MaxDeliveries=2, MaxNested=1), 600),
    ]
    if tier == "thorough":
        q += [
            ("2 signals (plain / info), 2 mutators x 2-3 ops, 1 other thread, 3 deliveries, nesting 2",
             dict(Sigs={10, 12}, Mutators={1, 2}, Others={3},
                  Script=script({1: [(R, 10, 1), (R, 12, 2), (U, 1)], 2: [(R, 12, 3), (S, 12)]}),
                  PrevKind=prevkind({10: "plain", 12: "info"}), MaxDeliveries=3, MaxNested=2), 2400),
        ]
    return q


def run_model(chk, tier):
    pid = chk.pid
    if pid not in MODEL_INV:
        return
    consts, stale, sig = extract_params()
    chk.params["registry"] = {"constants": {k: str(v) for k, v in consts.items()},
                              "signature": sig, "stale": stale}
    for s in stale:
        chk.note("mid-level model stale for the registry: %s (falling back to exhaustive real "
                 "schedules with TraceRegistryAbs as the only oracle)" % s)
    if pid == "C04":
        import inductive
        ok_shape = (not stale and consts["DispatchOrder"] == "F_then_D"
                    and consts["RegisterOrder"] == "fallback_then_sigaction")
        inductive.tlaps_proof(
            chk, "FallbackProof.tla",
            "Spec => []PrevAlwaysChained: for any number of signals, first registrations and concurrent deliveries, every "
            "delivery that reaches the library's dispatcher finds the previous handler of its signal in the slot or in "
            "the race fallback",
            applies=ok_shape,
            why_not="%s %s" % ({k: consts[k] for k in ("DispatchOrder", "RegisterOrder")}, stale))
    if stale:
        return
    for what, cfg, tmo in model_configs(tier):
        c = dict(cfg)
        c.update(consts)
        first = what == model_configs(tier)[0][0]
        r = chk.model_check("Registry.tla", c, invariants=MODEL_INV[pid], what=what, timeout=tmo,
                            workers=8 if tier == "quick" else 12, deadlock=(pid == "C18"),
                            expect=RG_ACTIONS if first else ())
        if r.violation:
            chk.model_violation(r, "lib.rs as extracted (%s)" % what, c, extra={"signature": sig})
    if pid == "C18":
        what, cfg, tmo = model_configs("quick")[0]
        c = dict(cfg)
        c.update(consts)
        c["MaxDeliveries"] = 1
        r = chk.model_check("Registry.tla", c, properties=["Termination"], spec="FairSpec",
                            what="liveness: " + what, timeout=900, workers=4)
        if r.violation:
            chk.model_violation(r, "lib.rs liveness", c)


def run_registry(chk, tier):
    pid = chk.pid
    inv = INV_OF[pid]
    run_model(chk, tier)
    todo = [(n, a, False) for n, a in scenarios(tier, pid)]
    # the single-threaded scenarios once more with the build that has release semantics
    # (debug_assert! compiled out, wrapping arithmetic)
    todo += [(n + "_rel", a, True) for n, a, _ in list(todo)
             if ";" not in a[a.index("--threads") + 1] and not n.startswith("gen")]
    for name, args, rel in todo:
        out = os.path.join(WORK, "rg_%s_%s" % (pid, name))
        stats, _, _ = harness("registry", *args, "--out", out, "--max", 200000,
                              "--fine-max", 0, timeout=3000, rel=rel)
        chk.evaluations += stats["schedules"]
        chk.distinct += stats["distinct_abs_traces"]
        if not stats["exhausted"]:
            chk.exhaustive = False
        if stats["nondeterminism"]:
            chk.note("scenario %s: schedule enumeration saw nondeterminism" % name)
        abs_path = out + ".abs.ndjson"
        rej, ok_lines = chk.validate_runs(
            "TraceRegistryAbs.tla", abs_path, "abs_" + name, classify=lambda tv: pid,
            constants=dict(HandlerBase=8, HandlerPerAct=1), invariants=[inv, "V_Harness"])
        chk.trace_events += ok_lines
        chk.traces += max(stats["distinct_abs_traces"] - len(rej), 0)
        scheds = open(out + ".schedules.txt").read().splitlines()
        for n, what, _cls in rej:
            sched = scheds[n] if n is not None and 0 <= n < len(scheds) else ""
            viol = _violated_flags(chk, name)
            if what == "V_Harness" or isinstance(what, dict) or what is None:
                # an event the monitor has no action for, or a harness-level inconsistency
                raise_tool = "registry scenario %s run %s: monitor could not follow the trace " \
                             "(%s) %s" % (name, n, json.dumps(what), viol)
                from common import ToolError
                raise ToolError(raise_tool)
            path = write_replay(pid, "registry_%s_%s" % (name, n), {
                "property": pid, "kind": "real_execution_violates_property_monitor",
                "component": "registry", "harness_args": [str(a) for a in args],
                "schedule": sched, "violated": what, "flags": viol,
                "replay": "harness registry %s --replay '%s'" % (
                    " ".join("'%s'" % a if ";" in str(a) else str(a) for a in args), sched)})
            chk.violation("registry scenario %s run %s: %s violated %s; schedule: %s"
                          % (name, n, what, viol, sched[:200]), path)
        if len(chk.samples) < 6:
            with open(abs_path) as f:
                lines = f.read().splitlines()
            chk.sample({"scenario": "registry " + name, "args": [str(a) for a in args],
                        "schedules": stats["schedules"], "first_abstract_trace": lines[1:16]})


def _violated_flags(chk, name):
    """The `viol` set of the last state of the TLC counterexample, if any."""
    import re
    tv = chk.tv[-1] if chk.tv else None
    try:
        out = open(os.path.join(WORK, "tlc_%s_abs_%s" % (chk.pid, name), "out.txt")).read()
    except Exception:
        return ""
    m = re.findall(r"/\\ viol = (\{[^}]*\})", out)
    return " ".join(m[-1].split()) if m else ""
