//! Conformance harness for signal-hook: drives the real crates (built from /repo with
//! `--cfg sighook_verif`) and writes NDJSON traces for TLC.

mod channel;
mod halflock;
mod iterator;
mod probe;
mod registry;
mod sched;
mod trace;

use std::alloc::{GlobalAlloc, Layout, System};
use std::collections::HashMap;

/// Counts allocator traffic of code under test inside simulated deliveries (C03).
struct CountingAlloc;

unsafe impl GlobalAlloc for CountingAlloc {
    unsafe fn alloc(&self, l: Layout) -> *mut u8 {
        sched::count_alloc(false);
        System.alloc(l)
    }
    unsafe fn dealloc(&self, p: *mut u8, l: Layout) {
        sched::count_alloc(true);
        System.dealloc(p, l)
    }
    unsafe fn realloc(&self, p: *mut u8, l: Layout, n: usize) -> *mut u8 {
        sched::count_alloc(false);
        System.realloc(p, l, n)
    }
}

#[global_allocator]
static ALLOC: CountingAlloc = CountingAlloc;

pub struct Args {
    kv: HashMap<String, String>,
    flags: Vec<String>,
}

impl Args {
    fn parse(args: &[String]) -> Args {
        let mut kv = HashMap::new();
        let mut flags = Vec::new();
        let mut i = 0;
        while i < args.len() {
            let a = &args[i];
            if let Some(k) = a.strip_prefix("--") {
                if i + 1 < args.len() && !args[i + 1].starts_with("--") {
                    kv.insert(k.to_string(), args[i + 1].clone());
                    i += 2;
                } else {
                    flags.push(k.to_string());
                    i += 1;
                }
            } else {
                i += 1;
            }
        }
        Args { kv, flags }
    }
    pub fn get(&self, k: &str) -> Option<&str> {
        self.kv.get(k).map(|s| s.as_str())
    }
    pub fn num(&self, k: &str, d: usize) -> usize {
        self.get(k).and_then(|s| s.parse().ok()).unwrap_or(d)
    }
    pub fn flag(&self, k: &str) -> bool {
        self.flags.iter().any(|f| f == k)
    }
}

fn main() {
    let argv: Vec<String> = std::env::args().collect();
    if argv.len() < 2 {
        eprintln!("usage: harness <component> [options]");
        std::process::exit(2);
    }
    // Panics of code under test are data, not noise on stderr.
    std::panic::set_hook(Box::new(|_| {}));
    let args = Args::parse(&argv[2..]);
    if argv[1] != "probe" {
        sched::install_abort_reporter();
    }
    let code = match argv[1].as_str() {
        "halflock" => halflock::main(&args),
        "channel" => channel::main(&args),
        "registry" => registry::main(&args),
        "iterator" => iterator::main(&args),
        "probe" => {
            let which = argv.get(2).cloned().unwrap_or_default();
            let a = Args::parse(&argv[3.min(argv.len())..]);
            probe::main(&a, &which)
        }
        other => {
            eprintln!("unknown component {}", other);
            2
        }
    };
    std::process::exit(code);
}
