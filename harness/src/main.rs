fn main(){}
