//! Turning scheduler logs into NDJSON trace lines for TLC.

use std::collections::HashMap;
use std::fmt::Write as _;

use signal_hook_registry::verif::Kind;

use crate::sched::{kind_name, ord_name, Event};

/// A JSON object under construction (hand-rolled: keys are plain identifiers).
pub struct Obj(String);

impl Obj {
    pub fn new(ev: &str) -> Self {
        let mut s = String::with_capacity(96);
        let _ = write!(s, "{{\"e\":\"{}\"", ev);
        Obj(s)
    }
    pub fn int(mut self, k: &str, v: i64) -> Self {
        let _ = write!(self.0, ",\"{}\":{}", k, v);
        self
    }
    pub fn str(mut self, k: &str, v: &str) -> Self {
        let _ = write!(self.0, ",\"{}\":\"{}\"", k, esc(v));
        self
    }
    pub fn boolean(mut self, k: &str, v: bool) -> Self {
        let _ = write!(self.0, ",\"{}\":{}", k, v);
        self
    }
    pub fn ints(mut self, k: &str, v: &[i64]) -> Self {
        let _ = write!(self.0, ",\"{}\":[", k);
        for (i, x) in v.iter().enumerate() {
            if i > 0 {
                self.0.push(',');
            }
            let _ = write!(self.0, "{}", x);
        }
        self.0.push(']');
        self
    }
    /// Insert pre-formatted JSON.
    pub fn raw(mut self, k: &str, json: &str) -> Self {
        let _ = write!(self.0, ",\"{}\":{}", k, json);
        self
    }
    pub fn done(mut self) -> String {
        self.0.push('}');
        self.0
    }
}

pub fn esc(s: &str) -> String {
    let mut o = String::new();
    for c in s.chars() {
        match c {
            '"' => o.push_str("\\\""),
            '\\' => o.push_str("\\\\"),
            '\n' => o.push_str("\\n"),
            c if (c as u32) < 0x20 => o.push(' '),
            c => o.push(c),
        }
    }
    o
}

/// Address -> role name.
#[derive(Default, Clone)]
pub struct LocMap(pub HashMap<usize, String>);

impl LocMap {
    pub fn add(&mut self, addr: usize, name: &str) {
        self.0.insert(addr, name.to_string());
    }
    pub fn add_halflock(&mut self, layout: [usize; 5], prefix: &str) {
        for (a, n) in layout.iter().zip(["data", "gen", "lock0", "lock1", "mtx"].iter()) {
            self.add(*a, &format!("{}{}", prefix, n));
        }
    }
    pub fn name(&self, addr: usize) -> String {
        self.0.get(&addr).cloned().unwrap_or_else(|| "?".to_string())
    }
}

/// Snapshot pointers -> small ids, in allocation order (addresses are reused, ids are not).
#[derive(Default)]
pub struct PtrIds {
    cur: HashMap<u64, i64>,
    next: i64,
}

impl PtrIds {
    pub fn alloc(&mut self, ptr: u64) -> i64 {
        self.next += 1;
        self.cur.insert(ptr, self.next);
        self.next
    }
    pub fn id(&self, ptr: u64) -> i64 {
        if ptr == 0 {
            0
        } else {
            *self.cur.get(&ptr).unwrap_or(&-1)
        }
    }
}

/// Fine-grained line for one shim operation. `val` maps raw values of the location to what the
/// spec uses (snapshot ids for pointers).
pub fn op_line(ev: &Event, loc: &str, val: &dyn Fn(u64) -> i64) -> String {
    let mut o = Obj::new("op")
        .int("t", ev.thr as i64 + 1)
        .int("d", ev.depth as i64)
        .str("k", kind_name(ev.kind))
        .str("l", loc)
        .str("o", ord_name(ev.ord))
        .int("old", val(ev.old))
        .int("new", val(ev.new))
        .boolean("ok", ev.ok);
    if matches!(ev.kind, Kind::Cas | Kind::CasWeak) {
        o = o.str("fo", ord_name(ev.fail)).int("a", val(ev.a)).int("b", val(ev.b));
    }
    o.done()
}

/// One recorded step of an operation's solo run: (kind, location role, ordering, failure
/// ordering).
pub fn signature(log: &[Event], locs: &LocMap) -> Vec<(String, String, String, String)> {
    log.iter()
        .filter(|e| e.kind != Kind::Event)
        .map(|e| {
            let l = match e.kind {
                Kind::Yield | Kind::Spin => String::new(),
                Kind::Syscall | Kind::SyscallBlocking => e.name.clone(),
                _ => locs.name(e.loc),
            };
            (
                kind_name(e.kind).to_string(),
                l,
                ord_name(e.ord).to_string(),
                ord_name(e.fail).to_string(),
            )
        })
        .collect()
}

pub fn signature_json(sig: &[(String, String, String, String)]) -> String {
    let mut s = String::from("[");
    for (i, (k, l, o, f)) in sig.iter().enumerate() {
        if i > 0 {
            s.push(',');
        }
        let _ = write!(s, "[\"{}\",\"{}\",\"{}\",\"{}\"]", k, l, o, f);
    }
    s.push(']');
    s
}
