//! Small-scope exploration of the real half-lock (through `VerifHalfLock`).

use std::collections::HashSet;
use std::fs::File;
use std::io::{BufWriter, Write};
use std::sync::atomic::{AtomicU64, Ordering};
use std::sync::Arc;

use signal_hook_registry::verif::{Kind, VerifHalfLock};

use crate::sched::{self, Body, Dfs, Event, Outcome, Random, Replay, RunCfg, RunResult, Strategy};
use crate::trace::{op_line, signature, signature_json, LocMap, Obj, PtrIds};
use crate::Args;

pub struct Canary {
    pub id: u64,
}

impl Drop for Canary {
    fn drop(&mut self) {
        sched::note("canary_drop", self.id, 0);
    }
}

struct Scn {
    readers: usize,
    sections: usize,
    writers: usize,
    stores: usize,
}

fn reader_section(hl: &VerifHalfLock<Canary>) {
    hl.read_with(|c| {
        sched::note("use", c as *const Canary as u64, c.id);
    });
}

/// Readers that loop until the writer is done (for the chain scenario).
fn build_chain(readers: usize, stores: usize, writers: usize) -> (Arc<VerifHalfLock<Canary>>, Vec<Body>, LocMap, u64) {
    let hl = Arc::new(VerifHalfLock::new(Canary { id: 1 }));
    let mut locs = LocMap::default();
    locs.add_halflock(hl.layout(), "");
    let init_ptr = hl.read_with(|c| c as *const Canary as u64);
    let stop = Arc::new(std::sync::atomic::AtomicBool::new(false));
    let mut bodies: Vec<Body> = Vec::new();
    for _ in 0..readers {
        let hl = hl.clone();
        let stop = stop.clone();
        bodies.push(Box::new(move || {
            let mut n = 0;
            while !stop.load(Ordering::SeqCst) && n < 100_000 {
                reader_section(&hl);
                n += 1;
            }
        }));
    }
    let finished = Arc::new(std::sync::atomic::AtomicUsize::new(0));
    for wi in 0..writers {
        let hl2 = hl.clone();
        let stop = stop.clone();
        let finished = finished.clone();
        bodies.push(Box::new(move || {
            for k in 0..stores {
                hl2.store(Canary { id: 2 + (wi * 100 + k) as u64 });
            }
            if finished.fetch_add(1, Ordering::SeqCst) + 1 == writers {
                stop.store(true, Ordering::SeqCst);
            }
        }));
    }
    (hl, bodies, locs, init_ptr)
}

fn build(scn: &Scn) -> (Arc<VerifHalfLock<Canary>>, Vec<Body>, LocMap, u64) {
    let hl = Arc::new(VerifHalfLock::new(Canary { id: 1 }));
    let mut locs = LocMap::default();
    locs.add_halflock(hl.layout(), "");
    let init_ptr = hl.read_with(|c| c as *const Canary as u64);
    let next = Arc::new(AtomicU64::new(2));
    let mut bodies: Vec<Body> = Vec::new();
    for _ in 0..scn.readers {
        let hl = hl.clone();
        let n = scn.sections;
        bodies.push(Box::new(move || {
            for _ in 0..n {
                reader_section(&hl);
            }
        }));
    }
    for _ in 0..scn.writers {
        let hl = hl.clone();
        let n = scn.stores;
        let next = next.clone();
        bodies.push(Box::new(move || {
            for _ in 0..n {
                let id = next.fetch_add(1, Ordering::SeqCst);
                hl.store(Canary { id });
            }
        }));
    }
    (hl, bodies, locs, init_ptr)
}

/// Normalise one run into (fine lines, abstract lines).
fn normalise(res: &RunResult, locs: &LocMap, init_ptr: u64) -> (Vec<String>, Vec<String>) {
    let mut ids = PtrIds::default();
    ids.alloc(init_ptr);
    let mut fine = Vec::new();
    let mut abs = Vec::new();
    for ev in &res.log {
        let t = ev.thr as i64 + 1;
        let d = ev.depth as i64;
        if ev.kind == Kind::Event {
            let line = match ev.name.as_str() {
                "hl_alloc" => {
                    let id = ids.alloc(ev.a);
                    Some(Obj::new("alloc").int("t", t).int("d", d).int("s", id).done())
                }
                "hl_publish" => Some(Obj::new("publish").int("t", t).int("d", d).int("s", ids.id(ev.a)).done()),
                "hl_open" => Some(Obj::new("open").int("t", t).int("d", d).int("s", ids.id(ev.a)).done()),
                "hl_close" => Some(Obj::new("close").int("t", t).int("d", d).int("s", ids.id(ev.a)).done()),
                "hl_free" => Some(Obj::new("free").int("t", t).int("d", d).int("s", ids.id(ev.a)).done()),
                "use" => Some(Obj::new("use").int("t", t).int("d", d).int("s", ids.id(ev.a)).done()),
                "deliver_begin" => Some(Obj::new("deliver").int("t", t).int("d", d).done()),
                "deliver_end" => Some(Obj::new("return").int("t", t).int("d", d).done()),
                "thread_done" => Some(Obj::new("done").int("t", t).int("d", d).done()),
                _ => None,
            };
            if let Some(l) = line {
                fine.push(l.clone());
                abs.push(l);
            }
        } else {
            let role = locs.name(ev.loc);
            let is_data = role == "data";
            let line = op_line(ev, &role, &|v| if is_data { ids.id(v) } else { v as i64 });
            fine.push(line);
        }
    }
    let mut tail = Vec::new();
    match &res.outcome {
        Outcome::Done => {}
        Outcome::Unstuck(_) | Outcome::Deadlock => tail.push(Obj::new("deadlock").int("t", 0).int("d", 0).int("hdepth", res.stuck.iter().map(|s| s.1 as i64).max().unwrap_or(0)).done()),
        Outcome::Lasso(why) => tail.push(
            Obj::new("livelock")
                .int("t", 0)
                .int("d", 0)
                .int("hdepth", res.stuck.iter().map(|s| s.1 as i64).max().unwrap_or(0))
                .str("why", why)
                .done(),
        ),
        Outcome::Livelock | Outcome::StepLimit => tail.push(Obj::new("livelock").int("t", 0).int("d", 0).int("hdepth", res.stuck.iter().map(|s| s.1 as i64).max().unwrap_or(0)).done()),
        Outcome::Aborted(r) if r.starts_with("watchdog") => tail.push(
            Obj::new("livelock")
                .int("t", 0)
                .int("d", 0)
                .int("hdepth", res.stuck.iter().map(|s| s.1 as i64).max().unwrap_or(0))
                .str("why", r)
                .done(),
        ),
        Outcome::Aborted(r) => tail.push(Obj::new("aborted").int("t", 0).int("d", 0).str("why", r).done()),
    }
    for (i, m) in &res.panics {
        tail.push(Obj::new("panic").int("t", *i as i64 + 1).int("d", 0).str("msg", m).done());
    }
    fine.extend(tail.iter().cloned());
    abs.extend(tail);
    (fine, abs)
}

pub fn solo_signatures() -> String {
    // reader alone, writer alone
    let scn = Scn { readers: 1, sections: 1, writers: 0, stores: 0 };
    let (_hl, bodies, locs, _) = build(&scn);
    let mut first = Dfs::new();
    let r = sched::run(bodies, &mut first, &RunCfg::default());
    let rs = signature(&r.log, &locs);
    let scn = Scn { readers: 0, sections: 0, writers: 1, stores: 1 };
    let (_hl, bodies, locs, _) = build(&scn);
    let mut first = Dfs::new();
    let w = sched::run(bodies, &mut first, &RunCfg::default());
    let ws = signature(&w.log, &locs);
    format!("{{\"read\":{},\"store\":{}}}", signature_json(&rs), signature_json(&ws))
}

pub fn main(args: &Args) -> i32 {
    if args.flag("signature") {
        println!("{}", solo_signatures());
        return 0;
    }
    let scn = Scn {
        readers: args.num("readers", 1),
        sections: args.num("sections", 1),
        writers: args.num("writers", 1),
        stores: args.num("stores", 1),
    };
    let max = args.num("max", 1_000_000);
    let nested = args.num("nested", 0);
    let out = args.get("out").unwrap_or("/verif/work/halflock").to_string();
    let mode = args.get("mode").unwrap_or("dfs").to_string();
    let seed = args.num("seed", 1) as u64;
    let mut fine_w = BufWriter::new(File::create(format!("{}.fine.ndjson", out)).unwrap());
    let mut abs_w = BufWriter::new(File::create(format!("{}.abs.ndjson", out)).unwrap());
    let mut sched_w = BufWriter::new(File::create(format!("{}.schedules.txt", out)).unwrap());
    let mut dfs = Dfs::new();
    let mut rnd = Random::new(seed);
    let mut count = 0usize;
    let mut events = 0usize;
    let mut distinct: HashSet<u64> = HashSet::new();
    let mut distinct_fine: HashSet<u64> = HashSet::new();
    let mut anomalies: Vec<String> = Vec::new();
    let mut exhausted = false;
    let mut chain_hints = 0usize;
    let replay_codes: Option<Vec<String>> = args
        .get("replay")
        .map(|s| s.split_whitespace().map(|x| x.to_string()).collect());
    // --replay-file: one schedule per line (behaviours of HalfLock.tla printed by TLC): each is
    // forced onto the real code; a token that is not enabled is a divergence
    let replay_list: Option<Vec<Vec<String>>> = args.get("replay-file").map(|f| {
        std::fs::read_to_string(f)
            .unwrap()
            .lines()
            .filter(|l| !l.trim().is_empty())
            .map(|l| l.split_whitespace().map(|x| x.to_string()).collect())
            .collect()
    });
    let mut diverged = 0usize;
    let mut diverged_first = String::new();
    let mut not_consumed = 0usize;
    loop {
        if count >= max {
            break;
        }
        if let Some(l) = &replay_list {
            if count >= l.len() {
                exhausted = true;
                break;
            }
        }
        let (hl, bodies, locs, init_ptr) = if mode == "chain" {
            build_chain(scn.readers.max(2), scn.stores, scn.writers.max(1))
        } else {
            build(&scn)
        };
        let deliver_hl = hl.clone();
        let mut cfg = RunCfg::default();
        cfg.signals = vec![10];
        cfg.max_deliveries = nested;
        cfg.max_nested = args.num("depth", 1);
        cfg.deliver_on = match args.get("deliver-on").unwrap_or("writers") {
            "all" => (0..scn.readers + scn.writers).collect(),
            "readers" => (0..scn.readers).collect(),
            _ => (scn.readers..scn.readers + scn.writers).collect(),
        };
        cfg.deliver_at_start = false;
        cfg.post_points = args.flag("post-points");
        cfg.handler_atomic = args.flag("handler-atomic");
        cfg.preemption_bound = args.get("preempt").map(|s| s.parse().unwrap());
        cfg.deliver = Some(Arc::new(move |_sig, _id| reader_section(&deliver_hl)));
        let res = if let Some(l) = &replay_list {
            let mut rp = Replay::new(l[count].clone());
            let r = sched::run(bodies, &mut rp, &cfg);
            if rp.diverged {
                diverged += 1;
                if diverged_first.is_empty() {
                    diverged_first = format!("line {} at token {}: {}", count, rp.diverged_at, l[count].join(" "));
                }
            } else if rp.pos < l[count].len() {
                not_consumed += 1;
            }
            r
        } else if let Some(codes) = &replay_codes {
            let mut rp = Replay::new(codes.clone());
            sched::run(bodies, &mut rp, &cfg)
        } else if mode == "chain" {
            let mut ch = sched::Chain::with_writers(scn.readers.max(2), scn.writers.max(1));
            cfg.max_deliveries = 0;
            cfg.max_steps = 20_000;
            let r = sched::run(bodies, &mut ch, &cfg);
            chain_hints = ch.writer_hints;
            r
        } else if mode == "random" {
            sched::run(bodies, &mut rnd as &mut dyn Strategy, &cfg)
        } else {
            dfs.begin();
            sched::run(bodies, &mut dfs, &cfg)
        };
        let (fine, abs) = normalise(&res, &locs, init_ptr);
        let codes: Vec<String> = res.schedule.iter().map(|c| c.code()).collect();
        let reset = Obj::new("reset").int("t", 0).int("d", 0).int("n", count as i64).done();
        use std::hash::{Hash, Hasher};
        let mut h = std::collections::hash_map::DefaultHasher::new();
        fine.hash(&mut h);
        if distinct_fine.insert(h.finish()) && distinct_fine.len() <= args.num("fine-max", usize::MAX) {
            writeln!(fine_w, "{}", reset).unwrap();
            for l in &fine {
                writeln!(fine_w, "{}", l).unwrap();
            }
        }
        let mut h = std::collections::hash_map::DefaultHasher::new();
        abs.hash(&mut h);
        if distinct.insert(h.finish()) {
            writeln!(abs_w, "{}", reset).unwrap();
            for l in &abs {
                writeln!(abs_w, "{}", l).unwrap();
            }
        }
        writeln!(sched_w, "{}", codes.join(" ")).unwrap();
        events += fine.len();
        if res.outcome != Outcome::Done || !res.panics.is_empty() {
            if anomalies.len() < 5 {
                anomalies.push(format!(
                    "{{\"n\":{},\"outcome\":\"{}\",\"schedule\":\"{}\"}}",
                    count,
                    format!("{:?}", res.outcome).replace('"', "'").replace('\\', ""),
                    codes.join(" ")
                ));
            }
            if res.outcome != Outcome::Done {
                // Threads were leaked; do not keep going for long.
                if anomalies.len() >= 3 {
                    count += 1;
                    break;
                }
            }
        }
        drop(hl);
        count += 1;
        if replay_codes.is_some() || mode == "chain" {
            break;
        }
        if replay_list.is_some() {
            continue;
        }
        if mode == "dfs" && !dfs.advance() {
            exhausted = true;
            break;
        }
    }
    fine_w.flush().unwrap();
    abs_w.flush().unwrap();
    sched_w.flush().unwrap();
    println!(
        "{{\"replay_diverged\":{},\"replay_not_consumed\":{},\"replay_first_divergence\":\"{}\",\"schedules\":{},\"events\":{},\"distinct_abs_traces\":{},\"distinct_fine_traces\":{},\"exhausted\":{},\"nondeterminism\":{},\"chain_writer_hints\":{},\"anomalies\":[{}]}}",
        diverged,
        not_consumed,
        diverged_first,
        count,
        events,
        distinct.len(),
        distinct_fine.len(),
        exhausted,
        dfs.nondeterminism,
        chain_hints,
        anomalies.join(",")
    );
    0
}

#[allow(dead_code)]
fn unused(_: &Event) {}
