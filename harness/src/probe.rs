//! Forked probes: cases whose correct outcome kills, stops or reconfigures the process. The child
//! runs one case and reports through a pipe; the parent records the wait status. One NDJSON line
//! per probe goes to stdout.

use std::io::Write;
use std::os::unix::io::{AsRawFd, FromRawFd, IntoRawFd, RawFd};
use std::panic::{catch_unwind, AssertUnwindSafe};
use std::sync::atomic::{AtomicBool, AtomicUsize, Ordering};
use std::sync::Arc;

use libc::c_int;

use crate::trace::{esc, Obj};
use crate::Args;

/// Outcome of a child as the parent sees it.
pub struct Status {
    pub text: String, // exited:N | signaled:N | stopped:N | timeout
    pub report: String, // what the child wrote to its report pipe
}

static mut REPORT_FD: RawFd = -1;

/// Child side: append text to the report (async-signal-safe: a plain write).
pub fn report(s: &str) {
    unsafe {
        if REPORT_FD >= 0 {
            libc::write(REPORT_FD, s.as_ptr() as *const libc::c_void, s.len());
        }
    }
}

extern "C" fn atexit_marker() {
    report("ATEXIT;");
}

/// Run `f` in a forked child (own process group, no core dumps). The child's return value is its
/// exit code unless it dies first.
pub fn fork_run<F: FnOnce() -> i32>(timeout_ms: u64, f: F) -> Status {
    let mut fds = [0 as c_int; 2];
    unsafe { libc::pipe(fds.as_mut_ptr()) };
    let _ = std::io::stdout().flush();
    let pid = unsafe { libc::fork() };
    if pid == 0 {
        unsafe {
            libc::close(fds[0]);
            REPORT_FD = fds[1];
            libc::setpgid(0, 0);
            let lim = libc::rlimit { rlim_cur: 0, rlim_max: 0 };
            libc::setrlimit(libc::RLIMIT_CORE, &lim);
            // an absurd allocation fails at once instead of depending on the machine's memory
            let asl = libc::rlimit { rlim_cur: 8 << 30, rlim_max: 8 << 30 };
            libc::setrlimit(libc::RLIMIT_AS, &asl);
            libc::atexit(atexit_marker);
        }
        let code = match catch_unwind(AssertUnwindSafe(f)) {
            Ok(c) => c,
            Err(_) => {
                report("UNCAUGHT_PANIC;");
                101
            }
        };
        unsafe { libc::_exit(code) };
    }
    unsafe { libc::close(fds[1]) };
    let mut status: c_int = 0;
    let mut waited = 0u64;
    let text;
    loop {
        let r = unsafe { libc::waitpid(pid, &mut status, libc::WUNTRACED | libc::WNOHANG) };
        if r == pid {
            if libc::WIFEXITED(status) {
                text = format!("exited:{}", libc::WEXITSTATUS(status));
            } else if libc::WIFSIGNALED(status) {
                text = format!("signaled:{}", libc::WTERMSIG(status));
            } else if libc::WIFSTOPPED(status) {
                text = format!("stopped:{}", libc::WSTOPSIG(status));
                unsafe {
                    libc::kill(pid, libc::SIGKILL);
                    libc::kill(pid, libc::SIGCONT);
                    libc::waitpid(pid, &mut status, 0);
                }
            } else {
                text = "unknown".to_string();
            }
            break;
        }
        std::thread::sleep(std::time::Duration::from_millis(1));
        waited += 1;
        if waited > timeout_ms {
            unsafe {
                libc::kill(pid, libc::SIGKILL);
                libc::waitpid(pid, &mut status, 0);
            }
            text = "timeout".to_string();
            break;
        }
    }
    let mut report = String::new();
    let mut buf = [0u8; 4096];
    unsafe {
        let fl = libc::fcntl(fds[0], libc::F_GETFL, 0);
        libc::fcntl(fds[0], libc::F_SETFL, fl | libc::O_NONBLOCK);
        loop {
            let n = libc::read(fds[0], buf.as_mut_ptr() as *mut libc::c_void, buf.len());
            if n <= 0 {
                break;
            }
            report.push_str(&String::from_utf8_lossy(&buf[..n as usize]));
        }
        libc::close(fds[0]);
    }
    Status { text, report }
}

/// "k=v;k2=v2;tok;a|1|x;" -> {"k":v,"k2":v2,"tokens":["tok"],"steps":[["a",1,"x"]]}
pub fn kv_json(report: &str) -> String {
    fn val(v: &str) -> String {
        if v.parse::<i64>().is_ok() || (v.starts_with('[') && v.ends_with(']')) {
            v.to_string()
        } else {
            format!("\"{}\"", esc(v))
        }
    }
    let mut fields = Vec::new();
    let mut tokens = Vec::new();
    let mut steps = Vec::new();
    for part in report.split(';').filter(|p| !p.is_empty()) {
        if part.contains('|') {
            let items: Vec<String> = part.split('|').map(val).collect();
            steps.push(format!("[{}]", items.join(",")));
        } else if let Some((k, v)) = part.split_once('=') {
            fields.push(format!("\"{}\":{}", esc(k), val(v)));
        } else {
            tokens.push(format!("\"{}\"", esc(part)));
        }
    }
    fields.push(format!("\"tokens\":[{}]", tokens.join(",")));
    fields.push(format!("\"steps\":[{}]", steps.join(",")));
    format!("{{{}}}", fields.join(","))
}

fn chars_json(s: &str) -> String {
    format!("[{}]", s.chars().map(|c| format!("\"{}\"", c)).collect::<Vec<_>>().join(","))
}

fn unblock(sig: c_int) {
    unsafe {
        let mut set: libc::sigset_t = std::mem::zeroed();
        libc::sigemptyset(&mut set);
        libc::sigaddset(&mut set, sig);
        libc::sigprocmask(libc::SIG_UNBLOCK, &set, std::ptr::null_mut());
    }
}

fn block(sig: c_int) {
    unsafe {
        let mut set: libc::sigset_t = std::mem::zeroed();
        libc::sigemptyset(&mut set);
        libc::sigaddset(&mut set, sig);
        libc::sigprocmask(libc::SIG_BLOCK, &set, std::ptr::null_mut());
    }
}

fn set_handler(sig: c_int, h: usize, flags: c_int) -> c_int {
    let mut sa: libc::sigaction = unsafe { std::mem::zeroed() };
    sa.sa_sigaction = h;
    sa.sa_flags = flags;
    unsafe { libc::sigaction(sig, &sa, std::ptr::null_mut()) }
}

/// Current dispositions of signals 1..=64 as (handler, flags) pairs.
fn dispositions() -> Vec<(usize, c_int)> {
    (1..=64)
        .map(|s| {
            let mut old: libc::sigaction = unsafe { std::mem::zeroed() };
            if unsafe { libc::sigaction(s, std::ptr::null(), &mut old) } == 0 {
                (old.sa_sigaction, old.sa_flags)
            } else {
                (usize::MAX, 0)
            }
        })
        .collect()
}

fn disp_diff(a: &[(usize, c_int)], b: &[(usize, c_int)]) -> Vec<i64> {
    a.iter()
        .zip(b.iter())
        .enumerate()
        .filter(|(_, (x, y))| x != y)
        .map(|(i, _)| i as i64 + 1)
        .collect()
}

/// The platform's own names (an independent table from libc's constants).
pub fn platform_name(sig: c_int) -> &'static str {
    match sig {
        libc::SIGHUP => "SIGHUP",
        libc::SIGINT => "SIGINT",
        libc::SIGQUIT => "SIGQUIT",
        libc::SIGILL => "SIGILL",
        libc::SIGTRAP => "SIGTRAP",
        libc::SIGABRT => "SIGABRT",
        libc::SIGBUS => "SIGBUS",
        libc::SIGFPE => "SIGFPE",
        libc::SIGKILL => "SIGKILL",
        libc::SIGUSR1 => "SIGUSR1",
        libc::SIGSEGV => "SIGSEGV",
        libc::SIGUSR2 => "SIGUSR2",
        libc::SIGPIPE => "SIGPIPE",
        libc::SIGALRM => "SIGALRM",
        libc::SIGTERM => "SIGTERM",
        libc::SIGSTKFLT => "SIGSTKFLT",
        libc::SIGCHLD => "SIGCHLD",
        libc::SIGCONT => "SIGCONT",
        libc::SIGSTOP => "SIGSTOP",
        libc::SIGTSTP => "SIGTSTP",
        libc::SIGTTIN => "SIGTTIN",
        libc::SIGTTOU => "SIGTTOU",
        libc::SIGURG => "SIGURG",
        libc::SIGXCPU => "SIGXCPU",
        libc::SIGXFSZ => "SIGXFSZ",
        libc::SIGVTALRM => "SIGVTALRM",
        libc::SIGPROF => "SIGPROF",
        libc::SIGWINCH => "SIGWINCH",
        libc::SIGIO => "SIGIO",
        libc::SIGPWR => "SIGPWR",
        libc::SIGSYS => "SIGSYS",
        _ => "",
    }
}

// ---------------------------------------------------------------------------------------------
// C16: default-action emulation
// ---------------------------------------------------------------------------------------------

fn probe_default(args: &Args) {
    let sigs: Vec<c_int> = if args.flag("all") {
        (-1..=66).chain([127, 128, 129, 1000].into_iter()).collect()
    } else {
        (1..=31).chain([0, 34, 35, 64, 65, 128].into_iter()).collect()
    };
    for sig in sigs {
        let name = signal_hook::low_level::signal_name(sig).unwrap_or("");
        println!(
            "{}",
            Obj::new("name").int("sig", sig as i64).str("lib", name).str("platform", platform_name(sig)).done()
        );
        if (1..=64).contains(&sig) && sig != 32 && sig != 33 {
            // what the kernel does by default
            let st = fork_run(3000, || {
                set_handler(sig, libc::SIG_DFL, 0);
                unblock(sig);
                unsafe { libc::raise(sig) };
                0
            });
            println!("{}", Obj::new("native").int("sig", sig as i64).str("status", &st.text).done());
        }
        // emulation from normal context
        let st = fork_run(3000, || match signal_hook::low_level::emulate_default_handler(sig) {
            Ok(()) => 0,
            Err(_) => 3,
        });
        println!(
            "{}",
            Obj::new("emulate").int("sig", sig as i64).str("ctx", "normal").str("status", &st.text).raw("r", &kv_json(&st.report)).done()
        );
        // emulation while ANOTHER terminating signal is blocked and pending (a program that keeps
        // it for sigwait/signalfd): the emulated signal's own default action must still win
        if (1..=64).contains(&sig) && sig != 32 && sig != 33 {
            let other = if sig == libc::SIGUSR2 { libc::SIGUSR1 } else { libc::SIGUSR2 };
            let st = fork_run(3000, || {
                set_handler(other, libc::SIG_DFL, 0);
                block(other);
                unsafe { libc::raise(other) };
                match signal_hook::low_level::emulate_default_handler(sig) {
                    Ok(()) => 0,
                    Err(_) => 3,
                }
            });
            println!(
                "{}",
                Obj::new("emulate").int("sig", sig as i64).str("ctx", "other_pending").int("other", other as i64).str("status", &st.text).raw("r", &kv_json(&st.report)).done()
            );
        }
        // stop signals in a process whose parent has died (re-parented to init) while its process
        // group is NOT orphaned (another member still has a parent outside the group): the kernel
        // stops it, so must the emulation
        if [libc::SIGTSTP, libc::SIGTTIN, libc::SIGTTOU].contains(&sig) {
            for native in [true, false] {
                let st = fork_run(6000, || {
                    // A = this process (leader of its own group, parent outside the group)
                    let mut fds = [0 as c_int; 2];
                    unsafe { libc::pipe(fds.as_mut_ptr()) };
                    let m = unsafe { libc::fork() };
                    if m == 0 {
                        // M: fork B, tell A its pid, exit at once
                        let b = unsafe { libc::fork() };
                        if b == 0 {
                            // B: wait until re-parented, then act
                            for _ in 0..200 {
                                if unsafe { libc::getppid() } == 1 {
                                    break;
                                }
                                std::thread::sleep(std::time::Duration::from_millis(5));
                            }
                            if native {
                                set_handler(sig, libc::SIG_DFL, 0);
                                unsafe { libc::raise(sig) };
                            } else {
                                let _ = signal_hook::low_level::emulate_default_handler(sig);
                            }
                            std::thread::sleep(std::time::Duration::from_millis(1500));
                            unsafe { libc::_exit(0) };
                        }
                        let bytes = (b as i32).to_ne_bytes();
                        unsafe { libc::write(fds[1], bytes.as_ptr() as *const libc::c_void, 4) };
                        unsafe { libc::_exit(0) };
                    }
                    let mut buf = [0u8; 4];
                    unsafe { libc::read(fds[0], buf.as_mut_ptr() as *mut libc::c_void, 4) };
                    let b = i32::from_ne_bytes(buf);
                    let mut stm: c_int = 0;
                    unsafe { libc::waitpid(m, &mut stm, 0) };
                    // watch B's state
                    let mut state = '?';
                    let mut ppid = -1;
                    for _ in 0..120 {
                        if let Ok(txt) = std::fs::read_to_string(format!("/proc/{}/stat", b)) {
                            if let Some(rest) = txt.rsplit(')').next() {
                                let mut it = rest.split_whitespace();
                                state = it.next().and_then(|x| x.chars().next()).unwrap_or('?');
                                ppid = it.next().and_then(|x| x.parse().ok()).unwrap_or(-1);
                            }
                        }
                        if state == 'T' {
                            break;
                        }
                        std::thread::sleep(std::time::Duration::from_millis(10));
                    }
                    report(&format!("stopped={};ppid={};", (state == 'T') as u8, ppid));
                    unsafe {
                        libc::kill(b, libc::SIGKILL);
                        libc::kill(b, libc::SIGCONT);
                    }
                    0
                });
                println!(
                    "{}",
                    Obj::new("reparented").int("sig", sig as i64).boolean("native", native).str("status", &st.text).raw("r", &kv_json(&st.report)).done()
                );
            }
        }
        // emulation on a thread other than the main one (the usual signal-loop-thread set-up)
        if (1..=64).contains(&sig) && sig != 32 && sig != 33 {
            let st = fork_run(3000, || {
                let h = std::thread::spawn(move || match signal_hook::low_level::emulate_default_handler(sig) {
                    Ok(()) => 0,
                    Err(_) => 3,
                });
                h.join().unwrap_or(9)
            });
            println!(
                "{}",
                Obj::new("emulate").int("sig", sig as i64).str("ctx", "thread").str("status", &st.text).raw("r", &kv_json(&st.report)).done()
            );
        }
        // emulation with the signal blocked by the mask (outside a handler)
        if (1..=64).contains(&sig) {
            let st = fork_run(3000, || {
                block(sig);
                match signal_hook::low_level::emulate_default_handler(sig) {
                    Ok(()) => 0,
                    Err(_) => 3,
                }
            });
            println!(
                "{}",
                Obj::new("emulate").int("sig", sig as i64).str("ctx", "masked").str("status", &st.text).raw("r", &kv_json(&st.report)).done()
            );
        }
        // emulation from inside the signal's own action (the signal is blocked there)
        let forbidden = signal_hook_registry::FORBIDDEN.contains(&sig);
        if (1..=64).contains(&sig) && sig != 32 && sig != 33 && !forbidden {
            let st = fork_run(3000, || {
                let r = unsafe {
                    signal_hook::low_level::register(sig, move || {
                        match signal_hook::low_level::emulate_default_handler(sig) {
                            Ok(()) => report("EMU_OK;"),
                            Err(_) => report("EMU_ERR;"),
                        }
                    })
                };
                if r.is_err() {
                    report("REG_ERR;");
                    return 4;
                }
                unsafe { libc::raise(sig) };
                0
            });
            println!(
                "{}",
                Obj::new("emulate").int("sig", sig as i64).str("ctx", "handler").str("status", &st.text).raw("r", &kv_json(&st.report)).done()
            );
        }
    }
}

// ---------------------------------------------------------------------------------------------
// C15: flags and conditional shutdown
// ---------------------------------------------------------------------------------------------

/// Script letters: a = arm (flag := true by the application), d = disarm, r = raise the signal,
/// s<N> = application stores N into the usize flag.
fn probe_flags(args: &Args) {
    let scripts: Vec<String> = args
        .get("scripts")
        .unwrap_or("r;rr;ar;dr;rdr;ardr;rrr")
        .split(';')
        .map(|s| s.to_string())
        .collect();
    let statuses: Vec<c_int> = args
        .get("statuses")
        .unwrap_or("0,1,77,255")
        .split(',')
        .map(|s| s.parse().unwrap())
        .collect();
    let sigs: Vec<c_int> = args
        .get("signals")
        .unwrap_or("15,2,3")
        .split(',')
        .map(|s| s.parse().unwrap())
        .collect();
    // signals whose default action is to ignore them: a conditional default must do nothing
    let ign_sigs: Vec<c_int> = args
        .get("ign-signals")
        .unwrap_or("28,23")
        .split(',')
        .map(|s| s.parse().unwrap())
        .collect();
    for order in ["shutdown_first", "flag_first", "shutdown_only", "flag_only", "default_first", "default_only", "shared_winch"] {
        let with_default = order.starts_with("default");
        for script in &scripts {
            if script.contains('w') && order != "shared_winch" {
                continue;
            }
            for (si, status) in statuses.iter().enumerate() {
                if with_default && si > 0 {
                    continue; // the exit status plays no role
                }
                let all_sigs: Vec<(c_int, &str)> = sigs
                    .iter()
                    .map(|s| (*s, "term"))
                    .chain(ign_sigs.iter().filter(|_| with_default).map(|s| (*s, "ign")))
                    .collect();
                for (sig, kind) in &all_sigs {
                  // once in a single-threaded child and, for the first status, once more in a
                  // child that has other (idle) threads: termination must take the whole process
                  // ... and once with everything registered in a process that then forks: the child
                  // inherits the dispositions and the registry, and it is the child that gets the signals
                  for mode in ["st", "mt", "fork"] {
                    let (mt, forked) = (mode == "mt", mode == "fork");
                    if mode != "st" && si > 0 {
                        continue;
                    }
                    let (sig, status, kind) = (*sig, *status, *kind);
                    let st = fork_run(5000, || {
                        if mt {
                            for _ in 0..2 {
                                std::thread::spawn(|| loop {
                                    std::thread::sleep(std::time::Duration::from_secs(3600));
                                });
                            }
                        }
                        let term = Arc::new(AtomicBool::new(false));
                        let usz = Arc::new(AtomicUsize::new(0));
                        let reg_shutdown = |t: &Arc<AtomicBool>| {
                            signal_hook::flag::register_conditional_shutdown(sig, status, Arc::clone(t)).unwrap();
                        };
                        let reg_flag = |t: &Arc<AtomicBool>| {
                            signal_hook::flag::register(sig, Arc::clone(t)).unwrap();
                        };
                        signal_hook::flag::register_usize(sig, Arc::clone(&usz), 7).unwrap();
                        match order {
                            "shutdown_first" => {
                                reg_shutdown(&term);
                                reg_flag(&term);
                            }
                            "flag_first" => {
                                reg_flag(&term);
                                reg_shutdown(&term);
                            }
                            "shutdown_only" => reg_shutdown(&term),
                            "default_first" => {
                                signal_hook::flag::register_conditional_default(sig, Arc::clone(&term)).unwrap();
                                reg_flag(&term);
                            }
                            "default_only" => {
                                signal_hook::flag::register_conditional_default(sig, Arc::clone(&term)).unwrap();
                            }
                            "shared_winch" => {
                                reg_shutdown(&term);
                                signal_hook::flag::register_conditional_default(libc::SIGWINCH, Arc::clone(&term)).unwrap();
                            }
                            _ => reg_flag(&term),
                        }
                        if forked {
                            let pid = unsafe { libc::fork() };
                            if pid > 0 {
                                // mirror the child's fate
                                let mut ws: c_int = 0;
                                unsafe {
                                    libc::waitpid(pid, &mut ws, 0);
                                    if libc::WIFEXITED(ws) {
                                        libc::_exit(libc::WEXITSTATUS(ws));
                                    }
                                    let ts = libc::WTERMSIG(ws);
                                    libc::signal(ts, libc::SIG_DFL);
                                    unblock(ts);
                                    libc::raise(ts);
                                    libc::_exit(98);
                                }
                            }
                        }
                        for ch in script.chars() {
                            match ch {
                                'a' => term.store(true, Ordering::SeqCst),
                                'd' => term.store(false, Ordering::SeqCst),
                                'u' => usz.store(3, Ordering::SeqCst),
                                'w' => {
                                    unsafe { libc::raise(libc::SIGWINCH) };
                                    report(&format!(
                                        "W|{}|{};",
                                        term.load(Ordering::SeqCst) as u8,
                                        usz.load(Ordering::SeqCst)
                                    ));
                                }
                                'r' => {
                                    unsafe { libc::raise(sig) };
                                    report(&format!(
                                        "R|{}|{};",
                                        term.load(Ordering::SeqCst) as u8,
                                        usz.load(Ordering::SeqCst)
                                    ));
                                }
                                _ => {}
                            }
                        }
                        // survive: leave through exit() so that the atexit marker shows
                        unsafe { libc::exit(42) };
                    });
                    println!(
                        "{}",
                        Obj::new("flags")
                            .str("order", order)
                            .str("script", script)
                            .raw("ops", &chars_json(script))
                            .int("exit", status as i64)
                            .int("sig", sig as i64)
                            .str("kind", kind)
                            .boolean("mt", mt)
                            .str("mode", mode)
                            .str("status", &st.text)
                            .raw("r", &kv_json(&st.report))
                            .done()
                    );
                  }
                }
            }
        }
    }
}

// ---------------------------------------------------------------------------------------------
// C14: forbidden and invalid signals at every entry point
// ---------------------------------------------------------------------------------------------

struct DropProbe(Arc<AtomicUsize>);
impl Drop for DropProbe {
    fn drop(&mut self) {
        self.0.fetch_add(1, Ordering::SeqCst);
    }
}

fn probe_reject(args: &Args) {
    let entries = [
        "registry_register", "registry_register_sigaction", "low_level_register", "flag_register",
        "flag_register_usize", "flag_conditional_shutdown", "flag_conditional_default",
        "pipe_register", "pipe_register_raw", "pipe_register_raw_pipe", "pipe_register_file", "signals_new", "signals_new_after_valid", "add_signal",
        "registry_register_signal_unchecked", "registry_register_unchecked",
    ];
    let nums: Vec<c_int> = if args.flag("wide") {
        let mut v: Vec<c_int> = (-5..=600).collect();
        for k in 10..31 {
            v.extend([(1 << k) - 1, 1 << k, (1 << k) + 1, -(1 << k)]);
        }
        v.extend([i32::MIN, i32::MIN + 1, i32::MAX - 1, i32::MAX]);
        v
    } else if args.flag("all") {
        // 138 = 128 + SIGUSR1, 266 = 256 + SIGUSR1: numbers that alias a signal already in use when
        // reduced modulo a table size
        (-2..=140).chain([266, 1 << 30, i32::MIN, i32::MAX].into_iter()).collect()
    } else {
        vec![-1, 0, 4, 8, 9, 11, 19, 10, 15, 32, 33, 34, 64, 65, 127, 128, 129, 138, 140, 266, i32::MAX]
    };
    // process state before the call: fresh | other signals in use | a forbidden signal was once
    // taken over through an unchecked entry point (and released again)
    for premode in [0, 1, 2] {
        let preregistered = premode == 1;
        for entry in entries.iter() {
            for n in &nums {
                let n = *n;
                if *entry == "signals_new_after_valid" && premode != 1 {
                    // needs a signal the library already handles, so that dispositions stay put
                    continue;
                }
                let unchecked = entry.ends_with("unchecked");
                if unchecked && [4, 8, 11].contains(&n) {
                    // would really take over SIGILL/SIGFPE/SIGSEGV: allowed, observed, then _exit
                }
                let st = fork_run(5000, || {
                    if preregistered {
                        let f = Arc::new(AtomicBool::new(false));
                        signal_hook::flag::register(libc::SIGUSR2, Arc::clone(&f)).unwrap();
                        signal_hook::flag::register(libc::SIGHUP, f).unwrap();
                    }
                    if premode == 2 {
                        for s in [libc::SIGILL, libc::SIGFPE, libc::SIGSEGV] {
                            if let Ok(id) = unsafe { signal_hook_registry::register_signal_unchecked(s, || ()) } {
                                if s != libc::SIGFPE {
                                    signal_hook_registry::unregister(id);
                                }
                            }
                        }
                    }
                    // set-up that is not part of the call under test
                    let base_inst = if *entry == "add_signal" {
                        Some(signal_hook::iterator::Signals::new(&[libc::SIGUSR1]).unwrap())
                    } else {
                        None
                    };
                    let before = dispositions();
                    let reg_before = signal_hook_registry::verif::registry_content().0;
                    let mut fds_before: Option<usize> = None;
                    let drops = Arc::new(AtomicUsize::new(0));
                    let flag = Arc::new(AtomicBool::new(false));
                    let usz = Arc::new(AtomicUsize::new(0));
                    let mut fd_to_check: RawFd = -1;
                    let mut fd_closes0 = 0usize;
                    let outcome = catch_unwind(AssertUnwindSafe(|| -> Result<(), std::io::Error> {
                        let probe = DropProbe(Arc::clone(&drops));
                        match *entry {
                            "registry_register" => unsafe {
                                signal_hook_registry::register(n, move || {
                                    let _ = &probe;
                                })
                                .map(|_| ())
                            },
                            "registry_register_sigaction" => unsafe {
                                signal_hook_registry::register_sigaction(n, move |_| {
                                    let _ = &probe;
                                })
                                .map(|_| ())
                            },
                            "registry_register_signal_unchecked" => unsafe {
                                signal_hook_registry::register_signal_unchecked(n, move || {
                                    let _ = &probe;
                                })
                                .map(|_| ())
                            },
                            "registry_register_unchecked" => unsafe {
                                signal_hook_registry::register_unchecked(n, move |_| {
                                    let _ = &probe;
                                })
                                .map(|_| ())
                            },
                            "low_level_register" => unsafe {
                                signal_hook::low_level::register(n, move || {
                                    let _ = &probe;
                                })
                                .map(|_| ())
                            },
                            "flag_register" => {
                                drop(probe);
                                signal_hook::flag::register(n, Arc::clone(&flag)).map(|_| ())
                            }
                            "flag_register_usize" => {
                                drop(probe);
                                signal_hook::flag::register_usize(n, Arc::clone(&usz), 1).map(|_| ())
                            }
                            "flag_conditional_shutdown" => {
                                drop(probe);
                                signal_hook::flag::register_conditional_shutdown(n, 1, Arc::clone(&flag)).map(|_| ())
                            }
                            "flag_conditional_default" => {
                                drop(probe);
                                signal_hook::flag::register_conditional_default(n, Arc::clone(&flag)).map(|_| ())
                            }
                            "pipe_register" => {
                                drop(probe);
                                let (_r, w) = std::os::unix::net::UnixStream::pair()?;
                                fd_to_check = w.as_raw_fd();
                                fd_closes0 = closes_of(fd_to_check);
                                std::mem::forget(_r);
                                signal_hook::low_level::pipe::register(n, w).map(|_| ())
                            }
                            "pipe_register_raw" => {
                                drop(probe);
                                let (_r, w) = std::os::unix::net::UnixStream::pair()?;
                                let raw = w.into_raw_fd();
                                fd_to_check = raw;
                                fd_closes0 = closes_of(raw);
                                std::mem::forget(_r);
                                signal_hook::low_level::pipe::register_raw(n, raw).map(|_| ())
                            }
                            // the same entry points with descriptors that are not sockets
                            "pipe_register_raw_pipe" => {
                                drop(probe);
                                let (_r, w) = make_pair("pipe");
                                fd_to_check = w;
                                fd_closes0 = closes_of(w);
                                signal_hook::low_level::pipe::register_raw(n, w).map(|_| ())
                            }
                            "pipe_register_file" => {
                                drop(probe);
                                let f = std::fs::OpenOptions::new().write(true).open("/dev/null")?;
                                fd_to_check = f.as_raw_fd();
                                fd_closes0 = closes_of(fd_to_check);
                                signal_hook::low_level::pipe::register(n, f).map(|_| ())
                            }
                            "signals_new" => {
                                drop(probe);
                                signal_hook::iterator::Signals::new(&[n]).map(|s| std::mem::forget(s))
                            }
                            // a constructor that has already registered a valid signal (SIGUSR2,
                            // in use by the process already) when it meets <n>
                            "signals_new_after_valid" => {
                                drop(probe);
                                fds_before = Some(count_open_fds());
                                signal_hook::iterator::Signals::new(&[libc::SIGUSR2, n]).map(|s| std::mem::forget(s))
                            }
                            "add_signal" => {
                                drop(probe);
                                base_inst.as_ref().unwrap().add_signal(n)
                            }
                            _ => Ok(()),
                        }
                    }));
                    let class = match &outcome {
                        Ok(Ok(())) => "ok".to_string(),
                        Ok(Err(e)) => format!("err:{}", e.raw_os_error().unwrap_or(-1)),
                        Err(_) => "panic".to_string(),
                    };
                    let after = dispositions();
                    let changed = disp_diff(&before, &after);
                    let reg_after = signal_hook_registry::verif::registry_content().0;
                    // signals whose list of actions differs from before the call
                    let mut reg_changed: Vec<c_int> = Vec::new();
                    for s in 1..=64 {
                        let a = reg_before.iter().find(|x| x.0 == s).map(|x| x.1.clone()).unwrap_or_default();
                        let b = reg_after.iter().find(|x| x.0 == s).map(|x| x.1.clone()).unwrap_or_default();
                        if a != b {
                            reg_changed.push(s);
                        }
                    }
                    let fds_delta = fds_before.map(|f| count_open_fds() as i64 - f as i64).unwrap_or(0);
                    // a rejected add must leave the instance working
                    let inst_ok = match base_inst {
                        Some(mut inst) => {
                            unsafe { libc::raise(libc::SIGUSR1) };
                            let got: Vec<c_int> = inst.pending().collect();
                            let ok = got == vec![libc::SIGUSR1];
                            let dropped = catch_unwind(AssertUnwindSafe(move || drop(inst))).is_ok();
                            (ok && dropped) as i64
                        }
                        None => -1,
                    };
                    let fd_open = if fd_to_check >= 0 {
                        (unsafe { libc::fcntl(fd_to_check, libc::F_GETFD) } != -1) as i64
                    } else {
                        -1
                    };
                    // close() calls on the captured descriptor number since it was created
                    let fd_closes = if fd_to_check >= 0 { closes_of(fd_to_check) as i64 - fd_closes0 as i64 } else { -1 };
                    // Is the library still usable?
                    let usable = catch_unwind(AssertUnwindSafe(|| {
                        let f = Arc::new(AtomicBool::new(false));
                        let id = signal_hook::flag::register(libc::SIGWINCH, Arc::clone(&f));
                        if id.is_err() {
                            return false;
                        }
                        unsafe { libc::raise(libc::SIGWINCH) };
                        let ok = f.load(Ordering::SeqCst);
                        signal_hook::low_level::unregister(id.unwrap());
                        ok
                    }))
                    .unwrap_or(false);
                    report(&format!(
                        "class={};inst_ok={};changed={:?};reg_changed={:?};fds_delta={};drops={};flag_rc={};usz_rc={};fd_open={};fd_closes={};usable={};",
                        class,
                        inst_ok,
                        changed,
                        reg_changed,
                        fds_delta,
                        drops.load(Ordering::SeqCst),
                        Arc::strong_count(&flag),
                        Arc::strong_count(&usz),
                        fd_open,
                        fd_closes,
                        usable as u8
                    ).replace(' ', ""));
                    0
                });
                println!(
                    "{}",
                    Obj::new("reject")
                        .str("entry", entry)
                        .int("n", n as i64)
                        .boolean("pre", preregistered)
                        .int("premode", premode as i64)
                        .str("status", &st.text)
                        .raw("r", &kv_json(&st.report))
                        .done()
                );
            }
        }
    }
}

// ---------------------------------------------------------------------------------------------
// C13: self-pipe wake
// ---------------------------------------------------------------------------------------------

fn fill_to_full(fd: RawFd) -> usize {
    // write (non-blocking) until the descriptor would block
    let fl = unsafe { libc::fcntl(fd, libc::F_GETFL, 0) };
    unsafe { libc::fcntl(fd, libc::F_SETFL, fl | libc::O_NONBLOCK) };
    let buf = [0x55u8; 4096];
    let mut total = 0usize;
    loop {
        let n = unsafe { libc::write(fd, buf.as_ptr() as *const libc::c_void, buf.len()) };
        if n <= 0 {
            // squeeze the last bytes in
            let n1 = unsafe { libc::write(fd, buf.as_ptr() as *const libc::c_void, 1) };
            if n1 <= 0 {
                break;
            }
            total += 1;
            continue;
        }
        total += n as usize;
    }
    unsafe { libc::fcntl(fd, libc::F_SETFL, fl) };
    total
}

fn drain_count(fd: RawFd) -> usize {
    let fl = unsafe { libc::fcntl(fd, libc::F_GETFL, 0) };
    unsafe { libc::fcntl(fd, libc::F_SETFL, fl | libc::O_NONBLOCK) };
    let mut buf = [0u8; 65536];
    let mut total = 0usize;
    loop {
        let n = unsafe { libc::read(fd, buf.as_mut_ptr() as *mut libc::c_void, buf.len()) };
        if n <= 0 {
            break;
        }
        total += n as usize;
    }
    total
}

/// Every `close(2)` of this binary (the library's included: the executable's definition wins over
/// libc's) is counted per descriptor number, so "closed exactly once" is observed as a count and
/// not only as "invalid afterwards".
static CLOSE_COUNTS: [AtomicUsize; 256] = {
    #[allow(clippy::declare_interior_mutable_const)]
    const Z: AtomicUsize = AtomicUsize::new(0);
    [Z; 256]
};

#[no_mangle]
pub unsafe extern "C" fn close(fd: c_int) -> c_int {
    if (0..256).contains(&fd) {
        CLOSE_COUNTS[fd as usize].fetch_add(1, Ordering::SeqCst);
    }
    libc::syscall(libc::SYS_close, fd) as c_int
}

fn closes_of(fd: RawFd) -> usize {
    if (0..256).contains(&fd) {
        CLOSE_COUNTS[fd as usize].load(Ordering::SeqCst)
    } else {
        0
    }
}

static TEARDOWN_VICTIM: AtomicUsize = AtomicUsize::new(0);
static TEARDOWN_DROPS: AtomicUsize = AtomicUsize::new(0);
static TEARDOWN_REUSED: AtomicUsize = AtomicUsize::new(0);

#[derive(Debug)]
struct TeardownWriteEnd(RawFd);

impl AsRawFd for TeardownWriteEnd {
    fn as_raw_fd(&self) -> RawFd {
        self.0
    }
}

impl Drop for TeardownWriteEnd {
    fn drop(&mut self) {
        TEARDOWN_DROPS.fetch_add(1, Ordering::SeqCst);
        unsafe {
            libc::close(self.0);
            let victim = TEARDOWN_VICTIM.load(Ordering::SeqCst) as RawFd;
            if libc::dup2(victim, self.0) == self.0 {
                TEARDOWN_REUSED.store(1, Ordering::SeqCst);
            }
            // a signal arrives right now
            libc::raise(libc::SIGUSR1);
        }
    }
}

fn make_pair(kind: &str) -> (RawFd, RawFd) {
    let mut fds = [0 as c_int; 2];
    unsafe {
        match kind {
            "pipe" => {
                libc::pipe(fds.as_mut_ptr());
                (fds[0], fds[1])
            }
            "pipe_nonblock" => {
                libc::pipe2(fds.as_mut_ptr(), libc::O_NONBLOCK);
                (fds[0], fds[1])
            }
            "stream" => {
                libc::socketpair(libc::AF_UNIX, libc::SOCK_STREAM, 0, fds.as_mut_ptr());
                (fds[0], fds[1])
            }
            _ => {
                libc::socketpair(libc::AF_UNIX, libc::SOCK_DGRAM, 0, fds.as_mut_ptr());
                (fds[0], fds[1])
            }
        }
    }
}

fn probe_pipe(args: &Args) {
    let kinds = ["pipe", "pipe_nonblock", "stream", "dgram"];
    let fills = ["empty", "partly", "full"];
    let bursts: Vec<usize> = args
        .get("bursts")
        .unwrap_or("1,3")
        .split(',')
        .map(|s| s.parse().unwrap())
        .collect();
    for kind in kinds {
        for fill in fills {
            for (bi, burst) in bursts.iter().enumerate() {
                let burst = *burst;
                // vary the descriptor numbers handed over (odd / even, low / higher)
                let shift = (bi + fill.len() + kind.len()) % 3;
                let st = fork_run(20000, || {
                    for _ in 0..shift {
                        unsafe { libc::open(b"/dev/null\0".as_ptr() as *const libc::c_char, libc::O_RDONLY) };
                    }
                    let (r, w) = make_pair(kind);
                    // one configuration in three hands over descriptor number 0 (a daemon that
                    // closed its standard streams gets it from the next pipe())
                    let w = if shift == 2 {
                        unsafe {
                            libc::close(0);
                            let z = libc::dup2(w, 0);
                            libc::close(w);
                            z
                        }
                    } else {
                        w
                    };
                    let closes_start = closes_of(w);
                    let pre = match fill {
                        "full" => fill_to_full(w),
                        "partly" => {
                            let b = [1u8; 3];
                            unsafe { libc::write(w, b.as_ptr() as *const libc::c_void, 3) as usize }
                        }
                        _ => 0,
                    };
                    let pre_msgs = if kind == "dgram" && fill != "empty" { 1 } else { 0 };
                    let _ = pre_msgs;
                    let id = match signal_hook::low_level::pipe::register_raw(libc::SIGUSR1, w) {
                        Ok(id) => id,
                        Err(_) => {
                            report("REGERR;");
                            return 5;
                        }
                    };
                    let fl = unsafe { libc::fcntl(w, libc::F_GETFL, 0) };
                    report(&format!("nonblock={};wfd={};", ((fl & libc::O_NONBLOCK) != 0) as u8, w));
                    // deliveries, each with a watchdog (alarm kills us if a delivery blocks)
                    unsafe { libc::alarm(5) };
                    for _ in 0..burst {
                        unsafe { libc::raise(libc::SIGUSR1) };
                    }
                    unsafe { libc::alarm(0) };
                    report("delivered;");
                    // what the reader sees beyond what was there before
                    let got = if kind == "dgram" {
                        // count datagrams
                        let flr = unsafe { libc::fcntl(r, libc::F_GETFL, 0) };
                        unsafe { libc::fcntl(r, libc::F_SETFL, flr | libc::O_NONBLOCK) };
                        let mut n = 0usize;
                        let mut b = [0u8; 8192];
                        let mut wake = 0usize;
                        loop {
                            let k = unsafe { libc::recv(r, b.as_mut_ptr() as *mut libc::c_void, b.len(), 0) };
                            if k < 0 {
                                break;
                            }
                            n += 1;
                            if k == 1 && b[0] == b'X' {
                                wake += 1;
                            }
                        }
                        report(&format!("dgrams={};", n));
                        wake
                    } else {
                        let total = drain_count(r);
                        total.saturating_sub(pre)
                    };
                    report(&format!("pre={};got={};", pre, got));
                    // removal closes the descriptor exactly once and nothing is written afterwards
                    let c0 = closes_of(w) - closes_start;
                    let removed = signal_hook::low_level::unregister(id);
                    let closed = unsafe { libc::fcntl(w, libc::F_GETFD) } == -1;
                    report(&format!("closes_before={};closes={};", c0, closes_of(w) - closes_start));
                    // descriptor-number reuse probe
                    let (r2, w2) = make_pair("pipe_nonblock");
                    unsafe { libc::raise(libc::SIGUSR1) };
                    let stray = drain_count(r2);
                    report(&format!(
                        "removed={};closed={};reused={};stray={};",
                        removed as u8,
                        closed as u8,
                        (w2 == w || r2 == w) as u8,
                        stray
                    ));
                    0
                });
                println!(
                    "{}",
                    Obj::new("pipe")
                        .str("kind", kind)
                        .str("fill", fill)
                        .int("burst", burst as i64)
                        .str("status", &st.text)
                        .raw("r", &kv_json(&st.report))
                        .done()
                );
            }
        }
    }
    // the iterators' own self-pipe (backend.rs wake_readers): a blocking UnixStream pair, also
    // when it is completely full and nobody reads
    for fill in ["empty", "full"] {
        for burst in &bursts {
            let burst = *burst;
            let st = fork_run(20000, || {
                use signal_hook::iterator::backend::SignalDelivery;
                use signal_hook::iterator::exfiltrator::SignalOnly;
                let (read, write) = std::os::unix::net::UnixStream::pair().unwrap();
                let pre = if fill == "full" { fill_to_full(write.as_raw_fd()) } else { 0 };
                let rfd = read.as_raw_fd();
                let mut sd = SignalDelivery::with_pipe(read, write, SignalOnly::default(), &[libc::SIGUSR1]).unwrap();
                unsafe { libc::alarm(5) };
                for _ in 0..burst {
                    unsafe { libc::raise(libc::SIGUSR1) };
                }
                unsafe { libc::alarm(0) };
                report("delivered;");
                let total = drain_count(rfd);
                let got: Vec<c_int> = sd.pending().collect();
                report(&format!("pre={};got={};yielded={};", pre, total.saturating_sub(pre), got.len()));
                0
            });
            println!(
                "{}",
                Obj::new("iter_pipe").str("fill", fill).int("burst", burst as i64).str("status", &st.text).raw("r", &kv_json(&st.report)).done()
            );
        }
    }
    // tear-down of an iterator instance: the write end must not be dropped (closed) while an
    // action that writes to it is still registered. The write end is a user type whose Drop closes
    // the descriptor, lets an unrelated socket take the same number and delivers the signal.
    for variant in ["instance_last", "handle_last"] {
        let st = fork_run(8000, || {
            use signal_hook::iterator::backend::SignalDelivery;
            use signal_hook::iterator::exfiltrator::SignalOnly;
            let (victim_read, victim_write) = std::os::unix::net::UnixStream::pair().unwrap();
            TEARDOWN_VICTIM.store(victim_write.as_raw_fd() as usize, Ordering::SeqCst);
            let (read, write) = std::os::unix::net::UnixStream::pair().unwrap();
            let write = TeardownWriteEnd(write.into_raw_fd());
            let sd = SignalDelivery::with_pipe(read, write, SignalOnly::default(), &[libc::SIGUSR1]).unwrap();
            unsafe { libc::raise(libc::SIGUSR1) };
            if variant == "handle_last" {
                let h = sd.handle();
                drop(sd);
                drop(h);
            } else {
                let h = sd.handle();
                drop(h);
                drop(sd);
            }
            let stray = drain_count(victim_read.as_raw_fd());
            report(&format!(
                "drops={};reused={};stray={};",
                TEARDOWN_DROPS.load(Ordering::SeqCst),
                TEARDOWN_REUSED.load(Ordering::SeqCst),
                stray
            ));
            0
        });
        println!(
            "{}",
            Obj::new("iter_teardown").str("variant", variant).str("status", &st.text).raw("r", &kv_json(&st.report)).done()
        );
    }
    // Signals::new default pipe, a long burst nobody reads
    {
        // (capped: the point is a pipe nobody reads, long full; millions of raises would only outlast the watchdog)
        let burst = std::cmp::min(*bursts.iter().max().unwrap_or(&3) * 200, 300_000);
        let st = fork_run(30000, || {
            let mut s = signal_hook::iterator::Signals::new(&[libc::SIGUSR1]).unwrap();
            unsafe { libc::alarm(10) };
            for _ in 0..burst {
                unsafe { libc::raise(libc::SIGUSR1) };
            }
            unsafe { libc::alarm(0) };
            report("delivered;");
            let got: Vec<c_int> = s.pending().collect();
            report(&format!("pre=0;got=0;yielded={};", got.len()));
            0
        });
        println!(
            "{}",
            Obj::new("iter_pipe").str("fill", "default_unread").int("burst", burst as i64).str("status", &st.text).raw("r", &kv_json(&st.report)).done()
        );
    }
    // rejected registrations must close the descriptor handed over, exactly once, whatever the
    // kind of descriptor and whichever stage refuses (flag setting, the OS, the forbidden check)
    let mut grid: Vec<(&str, c_int, &str)> = Vec::new();
    for fdkind in ["stream", "dgram", "pipe", "file", "opath"] {
        grid.push(("forbidden", libc::SIGKILL, fdkind));
        grid.push(("os_rejected", 65, fdkind));
        grid.push(("os_rejected", 0, fdkind));
    }
    grid.push(("forbidden", libc::SIGKILL, "pipe_fd0"));
    grid.push(("os_rejected", 65, "pipe_fd0"));
    grid.push(("unsettable", libc::SIGUSR1, "opath"));
    grid.push(("invalid_fd", libc::SIGUSR1, "closed"));
    grid.push(("invalid_fd", libc::SIGUSR1, "minus_one"));
    for (what, sig, fdkind) in grid {
        let st = fork_run(5000, || {
            let fd = match fdkind {
                "stream" | "dgram" | "pipe" => make_pair(fdkind).1,
                "pipe_fd0" => unsafe {
                    let w = make_pair("pipe").1;
                    libc::close(0);
                    let z = libc::dup2(w, 0);
                    libc::close(w);
                    z
                },
                "file" => unsafe { libc::open(b"/dev/null\0".as_ptr() as *const libc::c_char, libc::O_WRONLY) },
                "opath" => unsafe { libc::open(b"/dev/null\0".as_ptr() as *const libc::c_char, libc::O_PATH) },
                "closed" => {
                    let w = make_pair("stream").1;
                    unsafe { libc::close(w) };
                    w
                }
                _ => -1,
            };
            let was_open = unsafe { libc::fcntl(fd, libc::F_GETFD) } != -1;
            let c0 = closes_of(fd);
            let res = catch_unwind(AssertUnwindSafe(|| signal_hook::low_level::pipe::register_raw(sig, fd)));
            let class = match res {
                Ok(Ok(_)) => "ok",
                Ok(Err(_)) => "err",
                Err(_) => "panic",
            };
            let closed = unsafe { libc::fcntl(fd, libc::F_GETFD) } == -1;
            report(&format!(
                "class={};closed={};closes={};was_open={};",
                class,
                closed as u8,
                closes_of(fd) - c0,
                was_open as u8
            ));
            0
        });
        println!(
            "{}",
            Obj::new("pipe_reject")
                .str("what", what)
                .str("fdkind", fdkind)
                .int("sig", sig as i64)
                .str("status", &st.text)
                .raw("r", &kv_json(&st.report))
                .done()
        );
    }
}

// ---------------------------------------------------------------------------------------------
// C05: sequential histories on the registry of a FRESH process (nothing initialised by anybody)
// ---------------------------------------------------------------------------------------------

/// History letters: R<sig> register a counting action ; U<k> unregister the k-th registration of
/// the history (1-based) ; S<sig> unregister_signal ; D<sig> raise(sig) and report how many of
/// the history's actions ran.
fn probe_fresh(args: &Args) {
    let histories: Vec<String> = args
        .get("histories")
        .unwrap_or("S10;S10,R10,D10;S10,S12,R12,D12,S12,D12;R10,U1,U1,S10,D10;R10,R10,S10,S10,R10,D10;U1;R10,R12,U2,D12,D10,S10,D10")
        .split(';')
        .map(|s| s.to_string())
        .collect();
    for hist in &histories {
        let st = fork_run(8000, || {
            let ran = Arc::new(AtomicUsize::new(0));
            let mut ids: Vec<signal_hook_registry::SigId> = Vec::new();
            for tok in hist.split(',') {
                let (k, rest) = tok.split_at(1);
                let n: i64 = rest.parse().unwrap_or(0);
                let res: i64 = match catch_unwind(AssertUnwindSafe(|| match k {
                    "R" => {
                        let r = Arc::clone(&ran);
                        match unsafe { signal_hook_registry::register(n as c_int, move || { r.fetch_add(1, Ordering::SeqCst); }) } {
                            Ok(id) => {
                                ids.push(id);
                                1
                            }
                            Err(_) => 0,
                        }
                    }
                    "U" => match ids.get(n as usize - 1) {
                        Some(id) => signal_hook_registry::unregister(*id) as i64,
                        None => -1,
                    },
                    "S" => {
                        #[allow(deprecated)]
                        let r = signal_hook_registry::unregister_signal(n as c_int);
                        r as i64
                    }
                    // other code installed a handler before the library ever saw the signal:
                    // H one-shot (SA_RESETHAND), G with SA_NODEFER | SA_ONSTACK | a full sa_mask
                    "H" | "G" => {
                        extern "C" fn foreign(_: c_int) {}
                        unsafe {
                            let mut sa: libc::sigaction = std::mem::zeroed();
                            sa.sa_sigaction = foreign as usize;
                            if k == "H" {
                                sa.sa_flags = libc::SA_RESETHAND;
                            } else {
                                sa.sa_flags = libc::SA_NODEFER | libc::SA_ONSTACK;
                                libc::sigfillset(&mut sa.sa_mask);
                            }
                            (libc::sigaction(n as c_int, &sa, std::ptr::null_mut()) == 0) as i64
                        }
                    }
                    // who handles the signal now: 1 = the library's dispatcher with SA_RESTART and
                    // SA_SIGINFO and not one-shot, 2 = the dispatcher with other flags, 0 = somebody else
                    "Q" => unsafe {
                        let mut cur: libc::sigaction = std::mem::zeroed();
                        libc::sigaction(n as c_int, std::ptr::null(), &mut cur);
                        if cur.sa_sigaction != signal_hook_registry::verif::handler_addr() {
                            0
                        } else if cur.sa_flags & libc::SA_RESTART != 0
                            && cur.sa_flags & libc::SA_SIGINFO != 0
                            && cur.sa_flags & libc::SA_RESETHAND == 0
                        {
                            1
                        } else {
                            2
                        }
                    },
                    _ => {
                        let before = ran.load(Ordering::SeqCst);
                        unsafe { libc::raise(n as c_int) };
                        (ran.load(Ordering::SeqCst) - before) as i64
                    }
                })) {
                    Ok(v) => v,
                    Err(_) => -99,
                };
                report(&format!("{}|{}|{};", k, n, res));
            }
            0
        });
        println!(
            "{}",
            Obj::new("fresh")
                .str("hist", hist)
                .raw(
                    "ops",
                    &format!(
                        "[{}]",
                        hist.split(',')
                            .map(|t| {
                                let (k, rest) = t.split_at(1);
                                format!("[\"{}\",{}]", k, rest.parse::<i64>().unwrap_or(0))
                            })
                            .collect::<Vec<_>>()
                            .join(",")
                    ),
                )
                .str("status", &st.text)
                .raw("r", &kv_json(&st.report))
                .done()
        );
    }
}

// ---------------------------------------------------------------------------------------------
// C01 / C02: a delivery stalled inside an earlier action while another thread removes a later one
// ---------------------------------------------------------------------------------------------

/// One forked child per removal kind: a delivery of SIGUSR1 on thread T1 is stalled (for
/// `--hold-ms`, real time, native speed) inside the first action; T2 removes the second action
/// (by id / by signal). Reported: whether the removal returned while the delivery was still stalled
/// (`early`), and whether the second action started after the removal had returned (`late`).
fn probe_stall(args: &Args) {
    let hold = args.num("hold-ms", 800) as u64;
    for kind in ["unregister", "unregister_signal"] {
        let st = fork_run(hold * 4 + 8000, || {
            static SEQ: AtomicUsize = AtomicUsize::new(0);
            let entered = Arc::new(AtomicBool::new(false));
            let release = Arc::new(AtomicBool::new(false));
            let a2_seq = Arc::new(AtomicUsize::new(0));
            let a2_count = Arc::new(AtomicUsize::new(0));
            let ret_seq = Arc::new(AtomicUsize::new(0));
            let (e, r) = (Arc::clone(&entered), Arc::clone(&release));
            let _id1 = unsafe {
                signal_hook_registry::register(libc::SIGUSR1, move || {
                    e.store(true, Ordering::SeqCst);
                    while !r.load(Ordering::SeqCst) {
                        libc::sched_yield();
                    }
                })
            }
            .unwrap();
            let (s2, c2) = (Arc::clone(&a2_seq), Arc::clone(&a2_count));
            let id2 = unsafe {
                signal_hook_registry::register(libc::SIGUSR1, move || {
                    s2.store(SEQ.fetch_add(1, Ordering::SeqCst) + 1, Ordering::SeqCst);
                    c2.fetch_add(1, Ordering::SeqCst);
                })
            }
            .unwrap();
            let t1 = std::thread::spawn(|| unsafe {
                libc::raise(libc::SIGUSR1);
            });
            while !entered.load(Ordering::SeqCst) {
                std::thread::yield_now();
            }
            let rs = Arc::clone(&ret_seq);
            let t2 = std::thread::spawn(move || {
                if kind == "unregister" {
                    signal_hook_registry::unregister(id2);
                } else {
                    #[allow(deprecated)]
                    signal_hook_registry::unregister_signal(libc::SIGUSR1);
                }
                rs.store(SEQ.fetch_add(1, Ordering::SeqCst) + 1, Ordering::SeqCst);
            });
            std::thread::sleep(std::time::Duration::from_millis(hold));
            let early = ret_seq.load(Ordering::SeqCst) != 0;
            release.store(true, Ordering::SeqCst);
            t1.join().unwrap();
            t2.join().unwrap();
            let (a, rr) = (a2_seq.load(Ordering::SeqCst), ret_seq.load(Ordering::SeqCst));
            report(&format!(
                "early={};late={};a2={};",
                early as i32,
                (a != 0 && a > rr) as i32,
                a2_count.load(Ordering::SeqCst)
            ));
            0
        });
        println!(
            "{}",
            Obj::new("stall").str("kind", kind).int("hold_ms", hold as i64).str("status", &st.text).raw("r", &kv_json(&st.report)).done()
        );
    }
}

// ---------------------------------------------------------------------------------------------
// C03 (and C01/C02/C08/C09/C13 on one thread): a real delivery at every instruction boundary
// ---------------------------------------------------------------------------------------------
//
// The scheduler-driven exploration can stop a thread only at shim operations. Here an operation of
// the library runs under the x86 trap flag: after every instruction a SIGTRAP handler counts the
// step and (every `stride`-th step) forks. The forked child is a copy of the process *at exactly
// that instruction boundary*; in it the handler raises SIGURG - a real, kernel-delivered signal,
// nested on the interrupted operation - whose actions are all the built-in ones (flag, usize flag,
// self-pipe, Signals, SignalsInfo<WithRawSiginfo>, armed conditional default, unarmed conditional
// shutdown) plus a counting low-level action. The child then lets the interrupted operation finish
// without stepping, checks what the delivery did, and reports one line. The parent keeps stepping.
// A delivery that does not return within the watchdog (blocked on a lock the interrupted code
// holds, waiting for somebody, ...) is killed and reported as `hung`.

#[cfg(target_arch = "x86_64")]
mod stepper {
    use super::*;
    use std::sync::atomic::AtomicI32;

    pub static STEPS: AtomicUsize = AtomicUsize::new(0);
    pub static STRIDE: AtomicUsize = AtomicUsize::new(0); // 0: count only
    pub static OFFSET: AtomicUsize = AtomicUsize::new(0);
    pub static MAX_STEPS: AtomicUsize = AtomicUsize::new(400_000);
    pub static FROM: AtomicUsize = AtomicUsize::new(0);
    pub static TO: AtomicUsize = AtomicUsize::new(usize::MAX);
    pub static IS_CHILD: AtomicBool = AtomicBool::new(false);
    pub static CHILD_STEP: AtomicUsize = AtomicUsize::new(0);
    pub static H_ALLOC: AtomicUsize = AtomicUsize::new(0);
    pub static H_FREE: AtomicUsize = AtomicUsize::new(0);
    pub static FORKS: AtomicUsize = AtomicUsize::new(0);
    pub static HUNG: AtomicUsize = AtomicUsize::new(0);
    pub static DIED: AtomicUsize = AtomicUsize::new(0);
    pub static FIRST_BAD: AtomicUsize = AtomicUsize::new(0);
    pub static FIRST_BAD_STATUS: AtomicI32 = AtomicI32::new(0);
    pub static RES_FD: AtomicI32 = AtomicI32::new(-1);
    pub static TRUNCATED: AtomicBool = AtomicBool::new(false);
    pub static NEST_SIG: AtomicI32 = AtomicI32::new(libc::SIGURG);
    pub static RES_RD: AtomicI32 = AtomicI32::new(-1);
    pub static OKS: AtomicUsize = AtomicUsize::new(0);
    pub static mut LINES: [u8; 1 << 20] = [0; 1 << 20];
    pub static LINES_LEN: AtomicUsize = AtomicUsize::new(0);

    pub unsafe fn set_tf() {
        core::arch::asm!("pushfq", "or qword ptr [rsp], 0x100", "popfq");
    }
    pub unsafe fn clear_tf() {
        core::arch::asm!("pushfq", "and qword ptr [rsp], -257", "popfq");
    }

    extern "C" fn on_trap(_sig: c_int, _info: *mut libc::siginfo_t, ctx: *mut libc::c_void) {
        let n = STEPS.fetch_add(1, Ordering::Relaxed) + 1;
        let uc = ctx as *mut libc::ucontext_t;
        if n >= MAX_STEPS.load(Ordering::Relaxed) {
            TRUNCATED.store(true, Ordering::Relaxed);
            unsafe { (*uc).uc_mcontext.gregs[libc::REG_EFL as usize] &= !0x100 };
            return;
        }
        let stride = STRIDE.load(Ordering::Relaxed);
        if stride == 0 || n % stride != OFFSET.load(Ordering::Relaxed) % stride {
            return;
        }
        if n < FROM.load(Ordering::Relaxed) || n > TO.load(Ordering::Relaxed) {
            return;
        }
        // two dozen deliveries that never returned are evidence enough: every further one would only
        // cost another watchdog period
        if HUNG.load(Ordering::Relaxed) + DIED.load(Ordering::Relaxed) >= 24 {
            return;
        }
        FORKS.fetch_add(1, Ordering::Relaxed);
        // a delivery that does not return within 1 s is tried once more, from the same boundary, with a
        // 5 s watchdog: only a confirmed hang counts (a starved machine must not look like a deadlock)
        let mut st: c_int = 0;
        for attempt in 0..2 {
            let secs: u32 = if attempt == 0 { 1 } else { 5 };
            let pid = unsafe { libc::fork() };
            if pid == 0 {
                // the child: deliver here, then let the interrupted operation finish unstepped
                IS_CHILD.store(true, Ordering::SeqCst);
                CHILD_STEP.store(n, Ordering::SeqCst);
                unsafe {
                    libc::alarm(secs);
                    (*uc).uc_mcontext.gregs[libc::REG_EFL as usize] &= !0x100;
                }
                let _ = crate::sched::HANDLER_DEPTH.try_with(|d| d.set(d.get() + 1));
                let _ = crate::sched::H_ALLOCS.try_with(|c| c.set(0));
                let _ = crate::sched::H_FREES.try_with(|c| c.set(0));
                unsafe { libc::raise(NEST_SIG.load(Ordering::SeqCst)) };
                let _ = crate::sched::HANDLER_DEPTH.try_with(|d| d.set(d.get() - 1));
                H_ALLOC.store(crate::sched::H_ALLOCS.try_with(|c| c.get()).unwrap_or(0) as usize, Ordering::SeqCst);
                H_FREE.store(crate::sched::H_FREES.try_with(|c| c.get()).unwrap_or(0) as usize, Ordering::SeqCst);
                return;
            }
            // the parent: wait for the verdict of that child (bounded), keep stepping
            let mut waited = 0u32;
            loop {
                let r = unsafe { libc::waitpid(pid, &mut st, libc::WNOHANG) };
                if r == pid {
                    break;
                }
                let ts = libc::timespec { tv_sec: 0, tv_nsec: 200_000 };
                unsafe { libc::nanosleep(&ts, std::ptr::null_mut()) };
                waited += 1;
                if waited > secs * 5_000 + 3_000 {
                    unsafe {
                        libc::kill(pid, libc::SIGKILL);
                        libc::waitpid(pid, &mut st, 0);
                    }
                    st = 14; // as if the watchdog had fired
                    break;
                }
            }
            if !(libc::WIFSIGNALED(st) && libc::WTERMSIG(st) == libc::SIGALRM) {
                break;
            }
        }
        // the child's verdict line: "ok" lines are only counted, others are kept (no allocation here:
        // the interrupted code may be inside the allocator)
        unsafe {
            let mut tmp = [0u8; 512];
            loop {
                let r = libc::read(RES_RD.load(Ordering::Relaxed), tmp.as_mut_ptr() as *mut libc::c_void, tmp.len());
                if r <= 0 {
                    break;
                }
                let got = &tmp[..r as usize];
                if got.ends_with(b" ok\n") && got.iter().filter(|c| **c == b'\n').count() == 1 {
                    OKS.fetch_add(1, Ordering::Relaxed);
                } else {
                    let at = LINES_LEN.load(Ordering::Relaxed);
                    let room = (1usize << 20) - at;
                    let take = std::cmp::min(room, got.len());
                    std::ptr::copy_nonoverlapping(got.as_ptr(), (std::ptr::addr_of_mut!(LINES) as *mut u8).add(at), take);
                    LINES_LEN.store(at + take, Ordering::Relaxed);
                }
            }
        }
        let bad = if libc::WIFSIGNALED(st) && libc::WTERMSIG(st) == libc::SIGALRM {
            HUNG.fetch_add(1, Ordering::Relaxed);
            true
        } else if !(libc::WIFEXITED(st) && libc::WEXITSTATUS(st) == 0) {
            DIED.fetch_add(1, Ordering::Relaxed);
            true
        } else {
            false
        };
        if bad && FIRST_BAD.load(Ordering::Relaxed) == 0 {
            FIRST_BAD.store(n, Ordering::Relaxed);
            FIRST_BAD_STATUS.store(st, Ordering::Relaxed);
        }
    }

    pub fn install() {
        unsafe {
            let mut sa: libc::sigaction = std::mem::zeroed();
            sa.sa_sigaction = on_trap as usize;
            sa.sa_flags = libc::SA_SIGINFO;
            libc::sigemptyset(&mut sa.sa_mask);
            libc::sigaction(libc::SIGTRAP, &sa, std::ptr::null_mut());
        }
    }

    pub fn child_line(s: &str) {
        let fd = RES_FD.load(Ordering::SeqCst);
        unsafe { libc::write(fd, s.as_ptr() as *const libc::c_void, s.len()) };
    }
}

#[cfg(target_arch = "x86_64")]
fn probe_step(args: &Args) {
    use signal_hook::iterator::exfiltrator::WithRawSiginfo;
    use signal_hook::iterator::{Signals, SignalsInfo};
    use std::collections::BTreeMap;
    use stepper::*;
    let ops_arg = args.get("ops").unwrap_or("register_other,register_same,unregister,signals_pending,raw_pending,add_signal,emulate_first,drop_signals,unregister_signal_other").to_string();
    let forks_per_op = args.num("forks", 1200);
    let all = args.flag("all");
    for op in ops_arg.split(',') {
        // pass 1 counts the steps of the operation, pass 2 forks at every stride-th step
        let mut total = 0usize;
        for pass in 0..2 {
            let stride = if pass == 0 { 0 } else if all { 1 } else { std::cmp::max(1, total / forks_per_op) };
            let st = fork_run(args.num("timeout-ms", 300_000) as u64, || {
                let mut res = [0 as c_int; 2];
                unsafe { libc::pipe(res.as_mut_ptr()) };
                RES_FD.store(res[1], Ordering::SeqCst);
                RES_RD.store(res[0], Ordering::SeqCst);
                unsafe {
                    let fl = libc::fcntl(res[0], libc::F_GETFL, 0);
                    libc::fcntl(res[0], libc::F_SETFL, fl | libc::O_NONBLOCK);
                }
                // ---- the environment: every built-in action on SIGURG
                let sig = libc::SIGURG;
                let pre = Arc::new(AtomicUsize::new(0));
                let p2 = Arc::clone(&pre);
                let _id_pre = unsafe { signal_hook::low_level::register(sig, move || { p2.fetch_add(1, Ordering::SeqCst); }) }.unwrap();
                let flag = Arc::new(AtomicBool::new(false));
                signal_hook::flag::register(sig, Arc::clone(&flag)).unwrap();
                let usz = Arc::new(AtomicUsize::new(0));
                signal_hook::flag::register_usize(sig, Arc::clone(&usz), 77).unwrap();
                let (pr, pw) = std::os::unix::net::UnixStream::pair().unwrap();
                pr.set_nonblocking(true).unwrap();
                signal_hook::low_level::pipe::register(sig, pw).unwrap();
                let mut signals = Some(Signals::new(&[sig]).unwrap());
                let mut raw = SignalsInfo::<WithRawSiginfo>::new(&[sig]).unwrap();
                // an iterator back-end over our own socket pair: the read end stays visible
                let (dr, dw) = std::os::unix::net::UnixStream::pair().unwrap();
                let mut delivery = signal_hook::iterator::backend::SignalDelivery::with_pipe(
                    dr, dw, signal_hook::iterator::exfiltrator::SignalOnly::default(), &[sig, libc::SIGWINCH]).unwrap();
                let mut got_d: Vec<c_int> = Vec::with_capacity(16);
                let cond = Arc::new(AtomicBool::new(true));
                signal_hook::flag::register_conditional_default(sig, Arc::clone(&cond)).unwrap();
                let shut = Arc::new(AtomicBool::new(false));
                signal_hook::flag::register_conditional_shutdown(sig, 7, Arc::clone(&shut)).unwrap();
                let ycount = Arc::new(AtomicUsize::new(0));
                let y2 = Arc::clone(&ycount);
                let id_y = unsafe { signal_hook::low_level::register(sig, move || { y2.fetch_add(1, Ordering::SeqCst); }) }.unwrap();
                let _other = unsafe { signal_hook::low_level::register(libc::SIGWINCH, || {}) }.unwrap();
                let xcount = Arc::new(AtomicUsize::new(0));
                // C04 at instruction granularity: other code's handler (three-argument convention) is
                // in place on SIGUSR2 before the library ever sees that signal
                static FOREIGN_CALLS: AtomicUsize = AtomicUsize::new(0);
                static FOREIGN_BAD: AtomicUsize = AtomicUsize::new(0);
                extern "C" fn foreign_info(sig: c_int, info: *mut libc::siginfo_t, ctx: *mut libc::c_void) {
                    FOREIGN_CALLS.fetch_add(1, Ordering::SeqCst);
                    if sig != libc::SIGUSR2 || info.is_null() || ctx.is_null() || unsafe { (*info).si_signo } != libc::SIGUSR2 {
                        FOREIGN_BAD.fetch_add(1, Ordering::SeqCst);
                    }
                }
                extern "C" fn foreign_plain(sig: c_int) {
                    FOREIGN_CALLS.fetch_add(1, Ordering::SeqCst);
                    if sig != libc::SIGUSR2 {
                        FOREIGN_BAD.fetch_add(1, Ordering::SeqCst);
                    }
                }
                if op.starts_with("first_reg_prev") {
                    unsafe {
                        let mut sa: libc::sigaction = std::mem::zeroed();
                        if op.ends_with("info") {
                            sa.sa_sigaction = foreign_info as usize;
                            sa.sa_flags = libc::SA_SIGINFO;
                        } else {
                            sa.sa_sigaction = foreign_plain as usize;
                        }
                        libc::sigaction(libc::SIGUSR2, &sa, std::ptr::null_mut());
                    }
                    NEST_SIG.store(libc::SIGUSR2, Ordering::SeqCst);
                }
                let mut got_sig: Vec<c_int> = Vec::with_capacity(16);
                let mut got_raw = 0usize;
                let mut pre_deliveries = 0usize;
                if op == "signals_pending" || op == "raw_pending" {
                    unsafe { libc::raise(sig) };
                    unsafe { libc::raise(sig) };
                    pre_deliveries = 2;
                    drain_count(pr.as_raw_fd());
                }
                if op == "delivery_pending" {
                    unsafe { libc::raise(libc::SIGWINCH) };
                }
                STRIDE.store(stride, Ordering::SeqCst);
                OFFSET.store(args.num("offset", 0), Ordering::SeqCst);
                FROM.store(args.num("from", 0), Ordering::SeqCst);
                TO.store(args.num("to", usize::MAX), Ordering::SeqCst);
                install();
                // ---- the operation, stepped
                unsafe { set_tf() };
                match op {
                    "register_other" => {
                        let _ = unsafe { signal_hook::low_level::register(libc::SIGUSR1, || {}) };
                    }
                    "register_same" => {
                        let x2 = Arc::clone(&xcount);
                        let _ = unsafe { signal_hook::low_level::register(sig, move || { x2.fetch_add(1, Ordering::SeqCst); }) };
                    }
                    "first_reg_prev_info" | "first_reg_prev_plain" => {
                        let x2 = Arc::clone(&xcount);
                        let _ = unsafe { signal_hook::low_level::register(libc::SIGUSR2, move || { x2.fetch_add(1, Ordering::SeqCst); }) };
                    }
                    "unregister" => {
                        signal_hook::low_level::unregister(id_y);
                    }
                    "unregister_signal_other" => {
                        #[allow(deprecated)]
                        signal_hook_registry::unregister_signal(libc::SIGWINCH);
                    }
                    "signals_pending" => {
                        for s in signals.as_mut().unwrap().pending() {
                            got_sig.push(s);
                        }
                    }
                    "raw_pending" => {
                        for _ in raw.pending() {
                            got_raw += 1;
                        }
                    }
                    "add_signal" => {
                        let _ = signals.as_ref().unwrap().handle().add_signal(libc::SIGUSR2);
                    }
                    "delivery_pending" => {
                        for s in delivery.pending() {
                            got_d.push(s);
                        }
                    }
                    // (no blocking operation here: the forked children share the instance's socket pair
                    // with the stepping parent and would drain the byte it is about to read)
                    "close" => {
                        signals.as_ref().unwrap().handle().close();
                    }
                    "emulate_first" => {
                        let _ = signal_hook::low_level::emulate_default_handler(libc::SIGWINCH);
                    }
                    "drop_signals" => {
                        drop(signals.take());
                    }
                    _ => panic!("unknown op"),
                }
                unsafe { clear_tf() };
                // ---- both the stepping parent and every forked child arrive here
                if !IS_CHILD.load(Ordering::SeqCst) {
                    report(&format!(
                        "nsteps={};forks={};hung={};died={};first_bad={};first_bad_status={};truncated={};",
                        STEPS.load(Ordering::SeqCst), FORKS.load(Ordering::SeqCst), HUNG.load(Ordering::SeqCst),
                        DIED.load(Ordering::SeqCst), FIRST_BAD.load(Ordering::SeqCst),
                        FIRST_BAD_STATUS.load(Ordering::SeqCst), TRUNCATED.load(Ordering::SeqCst) as i32));
                    // the children's verdicts, by class
                    unsafe { libc::close(res[1]) };
                    let buf: Vec<u8> = unsafe {
                        std::slice::from_raw_parts(std::ptr::addr_of!(LINES) as *const u8, LINES_LEN.load(Ordering::SeqCst)).to_vec()
                    };
                    let mut classes: BTreeMap<String, (usize, usize)> = BTreeMap::new();
                    if OKS.load(Ordering::SeqCst) > 0 {
                        classes.insert("ok".to_string(), (OKS.load(Ordering::SeqCst), 0));
                    }
                    for line in String::from_utf8_lossy(&buf).lines() {
                        if let Some((k, cls)) = line.split_once(' ') {
                            let e = classes.entry(cls.to_string()).or_insert((0, k.parse().unwrap_or(0)));
                            e.0 += 1;
                        }
                    }
                    for (cls, (cnt, first)) in classes {
                        report(&format!("{}|{}|{};", cls, cnt, first));
                    }
                    return 0;
                }
                // ---- child: what did the nested delivery do?
                let k = CHILD_STEP.load(Ordering::SeqCst);
                let mut bad: Vec<&str> = Vec::new();
                if H_ALLOC.load(Ordering::SeqCst) + H_FREE.load(Ordering::SeqCst) > 0 { bad.push("handler_allocated"); }
                if op.starts_with("first_reg_prev") {
                    // whoever handled it - the foreign handler directly (before the take-over) or the
                    // library's dispatcher chaining to it - the foreign handler ran exactly once, with
                    // its own calling convention; the new action at most once
                    if FOREIGN_CALLS.load(Ordering::SeqCst) != 1 { bad.push("previous_handler_not_once"); }
                    if FOREIGN_BAD.load(Ordering::SeqCst) != 0 { bad.push("previous_handler_wrong_arguments"); }
                    if xcount.load(Ordering::SeqCst) > 1 { bad.push("action_twice"); }
                    unsafe { libc::raise(libc::SIGUSR2) };
                    if FOREIGN_CALLS.load(Ordering::SeqCst) != 2 || FOREIGN_BAD.load(Ordering::SeqCst) != 0 { bad.push("previous_handler_not_chained_afterwards"); }
                    if xcount.load(Ordering::SeqCst) == 0 { bad.push("new_action_not_registered"); }
                    let line = if bad.is_empty() { format!("{} ok\n", k) } else { bad.iter().map(|b| format!("{} {}\n", k, b)).collect::<Vec<_>>().join("") };
                    child_line(&line);
                    unsafe { libc::_exit(0) };
                }
                if pre.load(Ordering::SeqCst) != pre_deliveries + 1 { bad.push("registered_action_not_once"); }
                if !flag.load(Ordering::SeqCst) { bad.push("flag_unset"); }
                if usz.load(Ordering::SeqCst) != 77 { bad.push("usize_flag_wrong"); }
                let bytes = drain_count(pr.as_raw_fd());
                if bytes != 1 { bad.push("pipe_bytes_not_one_per_delivery"); }
                let yc = ycount.load(Ordering::SeqCst);
                if op == "unregister" { if yc > pre_deliveries + 1 { bad.push("action_twice"); } }
                else if yc != pre_deliveries + 1 { bad.push("registered_action_not_once"); }
                if xcount.load(Ordering::SeqCst) > 1 { bad.push("action_twice"); }
                if let Some(sg) = signals.as_mut() {
                    for s in sg.pending() { got_sig.push(s); }
                    if !got_sig.contains(&sig) { bad.push("iterator_lost_the_signal"); }
                    if got_sig.len() > 2 || got_sig.iter().any(|s| *s != sig) { bad.push("iterator_invented_a_signal"); }
                }
                for _ in raw.pending() { got_raw += 1; }
                if got_raw != pre_deliveries + 1 { bad.push("raw_records_not_one_per_delivery"); }
                // the back-end over our own pair: a delivered signal the scan did not report must have
                // its wake-up byte outstanding (a blocking reader would otherwise sleep on it)
                {
                    let reported = got_d.contains(&sig);
                    let mut pfd = libc::pollfd { fd: delivery.get_read().as_raw_fd(), events: libc::POLLIN, revents: 0 };
                    let readable = unsafe { libc::poll(&mut pfd, 1, 0) } == 1 && pfd.revents & libc::POLLIN != 0;
                    if !reported && !readable { bad.push("unreported_signal_without_wakeup"); }
                    for s in delivery.pending() { got_d.push(s); }
                    if !got_d.contains(&sig) { bad.push("iterator_lost_the_signal"); }
                    if got_d.iter().filter(|s| **s == sig).count() > 1 { bad.push("iterator_invented_a_signal"); }
                }
                // the library still works afterwards, and the operation took effect
                unsafe { libc::raise(sig) };
                if pre.load(Ordering::SeqCst) != pre_deliveries + 2 { bad.push("later_delivery_wrong"); }
                if op == "unregister" && ycount.load(Ordering::SeqCst) != yc { bad.push("removed_action_ran_after_removal"); }
                if op == "register_same" && xcount.load(Ordering::SeqCst) == 0 { bad.push("new_action_not_registered"); }
                // leave the descriptors shared with the stepping parent as they were found
                drain_count(pr.as_raw_fd());
                if let Some(sg) = signals.as_mut() { for _ in sg.pending() {} }
                for _ in raw.pending() {}
                for _ in delivery.pending() {}
                let line = if bad.is_empty() {
                    format!("{} ok\n", k)
                } else {
                    bad.iter().map(|b| format!("{} {}\n", k, b)).collect::<Vec<_>>().join("")
                };
                child_line(&line);
                unsafe { libc::_exit(0) };
            });
            if pass == 0 {
                total = kv_json(&st.report).split("\"nsteps\":").nth(1).and_then(|t| t.split(',').next()).and_then(|t| t.trim().parse().ok()).unwrap_or(0);
                if total == 0 { // the counting pass itself failed: report it
                    println!("{}", Obj::new("step").str("op", op).int("stride", 0).str("status", &st.text).raw("r", &kv_json(&st.report)).done());
                    break;
                }
            } else {
                println!("{}", Obj::new("step").str("op", op).int("stride", stride as i64).str("status", &st.text).raw("r", &kv_json(&st.report)).done());
            }
        }
    }
}

#[cfg(not(target_arch = "x86_64"))]
fn probe_step(_args: &Args) {}

// ---------------------------------------------------------------------------------------------
// C15: store-buffering litmus on the real actions (flag set by the first action, condition read by
// the second action of the same delivery, an application thread arming in between)
// ---------------------------------------------------------------------------------------------
//
// FlagSB.tla (over Mem.tla) says: with every access SeqCst, "the application armed the condition,
// then saw the flag still unset, and the conditional shutdown of that very delivery nevertheless
// read the condition as unarmed" is unreachable; with the flag's store (or the condition's load)
// weaker than SeqCst it is reachable - on x86 too (the store waits in the store buffer). The
// orderings of flag.rs cannot be extracted (they are applied to the caller's std atomics), so the
// binding is this litmus: thread A raises the signal on itself round after round; thread B, timed
// with rdtsc to hit the instant between the two actions, does `C.store(true); F.load()`. A child
// that survives a round in which B saw F unset reports the forbidden outcome (status 99).

#[cfg(target_arch = "x86_64")]
fn probe_flagsb(args: &Args) {
    use std::arch::x86_64::_rdtsc;
    let budget_ms = args.num("budget-ms", 4000) as u128;
    static B_READY: AtomicUsize = AtomicUsize::new(0);
    static GO: AtomicUsize = AtomicUsize::new(0);
    static DONE: AtomicUsize = AtomicUsize::new(0);
    fn pin(cpu: usize) {
        unsafe {
            let mut set: libc::cpu_set_t = std::mem::zeroed();
            libc::CPU_SET(cpu, &mut set);
            libc::sched_setaffinity(0, std::mem::size_of::<libc::cpu_set_t>(), &set);
        }
    }
    let ncpu = unsafe { libc::sysconf(libc::_SC_NPROCESSORS_ONLN) }.max(1) as usize;
    let t0 = std::time::Instant::now();
    let (mut children, mut shutdowns, mut forbidden, mut other) = (0u64, 0u64, 0u64, 0u64);
    while t0.elapsed().as_millis() < budget_ms && ncpu >= 3 {
        children += 1;
        let seed = children.wrapping_mul(0x9E37_79B9_7F4A_7C15) ^ 0xD1B5_4A32_D192_ED03;
        let st = fork_run(6000, || {
            unsafe { libc::alarm(5) };
            let base = (seed as usize) % ncpu;
            let f = Arc::new(AtomicBool::new(false));
            let c = Arc::new(AtomicBool::new(false));
            signal_hook::flag::register(libc::SIGUSR1, Arc::clone(&f)).unwrap();
            signal_hook::flag::register_conditional_shutdown(libc::SIGUSR1, 77, Arc::clone(&c)).unwrap();
            {
                // somebody polling the flag, as applications do (keeps its cache line shared)
                let f = Arc::clone(&f);
                std::thread::spawn(move || {
                    pin((base + 2) % ncpu);
                    let mut n = 0usize;
                    loop {
                        if f.load(Ordering::SeqCst) {
                            n = n.wrapping_add(1);
                        }
                        std::hint::black_box(n);
                    }
                });
            }
            {
                let (f, c) = (Arc::clone(&f), Arc::clone(&c));
                std::thread::spawn(move || {
                    pin((base + 1) % ncpu);
                    let mut rng = seed | 1;
                    let mut lat: Vec<u64> = Vec::with_capacity(64);
                    let mut delay: u64 = 0;
                    for round in 1..=20_000usize {
                        f.store(false, Ordering::SeqCst);
                        c.store(false, Ordering::SeqCst);
                        B_READY.store(round, Ordering::SeqCst);
                        while GO.load(Ordering::SeqCst) != round {}
                        let start = unsafe { _rdtsc() };
                        if round <= 64 {
                            while !f.load(Ordering::SeqCst) {}
                            lat.push(unsafe { _rdtsc() } - start);
                            while DONE.load(Ordering::SeqCst) != round {}
                            if round == 64 {
                                lat.sort_unstable();
                                delay = lat[lat.len() / 2] + 400;
                            }
                            continue;
                        }
                        while unsafe { _rdtsc() } - start < delay {}
                        c.store(true, Ordering::SeqCst);
                        let seen = f.load(Ordering::SeqCst);
                        while DONE.load(Ordering::SeqCst) != round {}
                        if !seen {
                            // armed before the flag action ran; the delivery is over; we live
                            unsafe { libc::_exit(99) };
                        }
                        rng ^= rng << 13;
                        rng ^= rng >> 7;
                        rng ^= rng << 17;
                        delay = delay.saturating_sub(rng % 40);
                    }
                    unsafe { libc::_exit(0) };
                });
            }
            pin(base);
            for round in 1..=20_000usize {
                while B_READY.load(Ordering::SeqCst) != round {}
                std::hint::black_box(c.load(Ordering::SeqCst));
                GO.store(round, Ordering::SeqCst);
                unsafe { libc::raise(libc::SIGUSR1) };
                DONE.store(round, Ordering::SeqCst);
            }
            loop {
                std::thread::sleep(std::time::Duration::from_secs(1));
            }
        });
        match st.text.as_str() {
            "exited:77" => shutdowns += 1,
            "exited:99" => forbidden += 1,
            _ => other += 1,
        }
        if forbidden > 0 {
            break;
        }
    }
    println!(
        "{}",
        Obj::new("flagsb").int("children", children as i64).int("shutdowns", shutdowns as i64).int("forbidden", forbidden as i64).int("other", other as i64).int("cpus", ncpu as i64).done()
    );
}

#[cfg(not(target_arch = "x86_64"))]
fn probe_flagsb(_args: &Args) {}

// ---------------------------------------------------------------------------------------------
// C13: descriptors that are duplicates of one socket / pipe, registered for different signals
// ---------------------------------------------------------------------------------------------

/// One write end, `try_clone`d and registered for two signals (the documented way to watch several
/// signals with one self-pipe). Removing one registration closes one descriptor; the other one must
/// go on delivering one byte per delivery.
fn probe_pipe_sibling(_args: &Args) {
    for kind in ["stream", "dgram", "pipe"] {
        let st = fork_run(8000, || {
            let (r, w) = make_pair(kind);
            unsafe {
                let fl = libc::fcntl(r, libc::F_GETFL, 0);
                libc::fcntl(r, libc::F_SETFL, fl | libc::O_NONBLOCK);
            }
            let w2 = unsafe { libc::dup(w) };
            let id1 = signal_hook::low_level::pipe::register_raw(libc::SIGUSR1, w).unwrap();
            let _id2 = signal_hook::low_level::pipe::register_raw(libc::SIGUSR2, w2).unwrap();
            unsafe { libc::raise(libc::SIGUSR1) };
            unsafe { libc::raise(libc::SIGUSR2) };
            let before = drain_count(r);
            signal_hook::low_level::unregister(id1);
            let mut after = 0;
            for _ in 0..3 {
                unsafe { libc::raise(libc::SIGUSR2) };
                after += drain_count(r);
            }
            // end of file on the read end means the write side was shut down for everybody
            let mut b = [0u8; 1];
            let n = unsafe { libc::read(r, b.as_mut_ptr() as *mut libc::c_void, 1) };
            report(&format!("before={};after={};eof={};", before, after, (n == 0) as i32));
            0
        });
        println!("{}", Obj::new("pipe_sibling").str("kind", kind).str("status", &st.text).raw("r", &kv_json(&st.report)).done());
    }
}

// ---------------------------------------------------------------------------------------------
// C12: the last two owners of an instance dropped at the same time on two threads
// ---------------------------------------------------------------------------------------------

/// Real threads (std's Arc is not a shim type, the scheduler cannot interleave inside it): the
/// instance and a handle are dropped simultaneously, many times; afterwards nothing the instance
/// registered may be left in the registry and no descriptor may have leaked.
fn probe_dropstress(args: &Args) {
    let iters = args.num("iterations", 4000);
    for raw in [false, true] {
        let st = fork_run(120_000, || {
            use signal_hook::iterator::exfiltrator::WithRawSiginfo;
            use signal_hook::iterator::{Signals, SignalsInfo};
            let fds0 = count_open_fds();
            let mut leaked_rounds = 0usize;
            for round in 0..iters {
                let (h, inst): (signal_hook::iterator::Handle, Box<dyn Send>) = if raw {
                    let s = SignalsInfo::<WithRawSiginfo>::new(&[libc::SIGUSR1]).unwrap();
                    (s.handle(), Box::new(s))
                } else {
                    let s = Signals::new(&[libc::SIGUSR1]).unwrap();
                    (s.handle(), Box::new(s))
                };
                // the last two owners are two handle clones (the instance goes first): symmetric drops,
                // released together by a spin barrier; every other round the instance is one of the two
                let h2 = h.clone();
                let ready = Arc::new(AtomicUsize::new(0));
                let r2 = Arc::clone(&ready);
                let inst_last = round % 2 == 1;
                let mut inst = Some(inst);
                if !inst_last {
                    drop(inst.take());
                }
                let t = std::thread::spawn(move || {
                    r2.fetch_add(1, Ordering::SeqCst);
                    while r2.load(Ordering::SeqCst) < 2 {}
                    drop(h);
                });
                if inst_last {
                    drop(h2);
                    ready.fetch_add(1, Ordering::SeqCst);
                    while ready.load(Ordering::SeqCst) < 2 {}
                    drop(inst.take());
                } else {
                    ready.fetch_add(1, Ordering::SeqCst);
                    while ready.load(Ordering::SeqCst) < 2 {}
                    drop(h2);
                }
                t.join().unwrap();
                if signal_hook_registry::verif::registry_content().0.iter().any(|(sg, a)| *sg == libc::SIGUSR1 && !a.is_empty()) {
                    leaked_rounds += 1;
                    #[allow(deprecated)]
                    signal_hook_registry::unregister_signal(libc::SIGUSR1);
                }
            }
            report(&format!("iterations={};leaked_rounds={};fds_left={};", iters, leaked_rounds, count_open_fds() as i64 - fds0 as i64));
            0
        });
        println!("{}", Obj::new("signals_dropstress").boolean("raw", raw).str("status", &st.text).raw("r", &kv_json(&st.report)).done());
    }
}

// ---------------------------------------------------------------------------------------------
// C12: Signals instances and rejected additions
// ---------------------------------------------------------------------------------------------

/// History letters: A<n> add_signal(n) ; R<n> raise n and report what the instance yields ;
/// H clone a handle ; h drop a handle ; X drop the instance ; N<n> construct with [SIGUSR1, n].
fn probe_signals(args: &Args) {
    let histories: Vec<String> = args
        .get("histories")
        .unwrap_or("A12,R12;A9,A12,R12,R10;A-1,A12,R12;A200,R10,A10,R10;A65,A65,A12,R12;A9,X;A12,A12,R12;H,A9,h,A12,R12,X")
        .split(';')
        .map(|s| s.to_string())
        .collect();
    for raw in [false, true] {
        for hist in &histories {
            let st = fork_run(8000, || {
                run_history(hist, raw);
                0
            });
            println!(
                "{}",
                Obj::new("signals")
                    .str("hist", hist)
                    .raw(
                        "ops",
                        &format!(
                            "[{}]",
                            hist.split(',')
                                .map(|t| {
                                    let (k, rest) = t.split_at(1);
                                    format!("[\"{}\",{}]", k, rest.parse::<i64>().unwrap_or(0))
                                })
                                .collect::<Vec<_>>()
                                .join(",")
                        ),
                    )
                    .boolean("raw", raw)
                    .str("status", &st.text)
                    .raw("r", &kv_json(&st.report))
                    .done()
            );
        }
    }
}

fn count_open_fds() -> usize {
    (0..256).filter(|fd| unsafe { libc::fcntl(*fd, libc::F_GETFD) } != -1).count()
}

enum AnySignals {
    Plain(signal_hook::iterator::Signals),
    Raw(signal_hook::iterator::SignalsInfo<signal_hook::iterator::exfiltrator::WithRawSiginfo>),
}

fn run_history(hist: &str, raw: bool) {
    use signal_hook::iterator::exfiltrator::WithRawSiginfo;
    use signal_hook::iterator::{Signals, SignalsInfo};
    let witness = Arc::new(AtomicUsize::new(0));
    // an independent action on SIGUSR1 so that the registry's behaviour is observable
    let w2 = Arc::clone(&witness);
    let wid = unsafe {
        signal_hook::low_level::register(libc::SIGUSR1, move || {
            w2.fetch_add(1, Ordering::SeqCst);
        })
    }
    .unwrap();
    let fds0 = count_open_fds();
    let mut inst: Option<AnySignals> = Some(if raw {
        AnySignals::Raw(SignalsInfo::<WithRawSiginfo>::new(&[libc::SIGUSR1]).unwrap())
    } else {
        AnySignals::Plain(Signals::new(&[libc::SIGUSR1]).unwrap())
    });
    let mut handles = Vec::new();
    let mut others: Vec<AnySignals> = Vec::new();
    for tok in hist.split(',') {
        let (k, rest) = tok.split_at(1);
        let n: i64 = rest.parse().unwrap_or(0);
        match k {
            // a second instance constructed with a valid signal first and <n> second: when <n> is
            // refused (error or documented panic) the half-built instance must leave nothing behind
            "N" => {
                let r = catch_unwind(AssertUnwindSafe(|| {
                    if raw {
                        SignalsInfo::<WithRawSiginfo>::new(&[libc::SIGUSR2, n as c_int]).map(AnySignals::Raw)
                    } else {
                        Signals::new(&[libc::SIGUSR2, n as c_int]).map(AnySignals::Plain)
                    }
                }));
                let class = match r {
                    Ok(Ok(i)) => {
                        others.push(i);
                        "ok"
                    }
                    Ok(Err(_)) => "err",
                    Err(_) => "panic",
                };
                report(&format!("N|{}|{}|[]|0;", n, class));
            }
            "A" => {
                let r = catch_unwind(AssertUnwindSafe(|| match inst.as_ref() {
                    Some(AnySignals::Plain(s)) => s.add_signal(n as c_int),
                    Some(AnySignals::Raw(s)) => s.add_signal(n as c_int),
                    None => Ok(()),
                }));
                let class = match r {
                    Ok(Ok(())) => "ok",
                    Ok(Err(_)) => "err",
                    Err(_) => "panic",
                };
                report(&format!("A|{}|{}|[]|0;", n, class));
            }
            "R" => {
                let before = witness.load(Ordering::SeqCst);
                unsafe { libc::raise(n as c_int) };
                let got: Vec<c_int> = match inst.as_mut() {
                    Some(AnySignals::Plain(s)) => s.pending().collect(),
                    Some(AnySignals::Raw(s)) => s.pending().map(|i| i.si_signo).collect(),
                    None => vec![],
                };
                report(&format!("R|{}|-|{:?}|{};", n, got, witness.load(Ordering::SeqCst) - before).replace(' ', ""));
            }
            "H" => {
                let h = match inst.as_ref() {
                    Some(AnySignals::Plain(s)) => s.handle(),
                    Some(AnySignals::Raw(s)) => s.handle(),
                    None => continue,
                };
                handles.push(h);
            }
            "h" => {
                handles.pop();
            }
            "X" => {
                let r = catch_unwind(AssertUnwindSafe(|| {
                    handles.clear();
                    drop(inst.take());
                }));
                let xclass = if r.is_ok() { "ok" } else { "panic" };
                // everything the instance registered is gone: a fresh delivery reaches only
                // the witness, and the next id handed out tells nothing leaked is counted
                let before = witness.load(Ordering::SeqCst);
                unsafe { libc::raise(libc::SIGUSR1) };
                report(&format!("X|0|{}|[]|{};", xclass, witness.load(Ordering::SeqCst) - before));
            }
            _ => {}
        }
    }
    let r = catch_unwind(AssertUnwindSafe(|| {
        handles.clear();
        drop(inst.take());
        others.clear();
    }));
    report(if r.is_ok() { "end=ok;" } else { "end=panic;" });
    report(&format!("fds_left={};", count_open_fds() as i64 - fds0 as i64));
    report(&format!("wit_unreg={};", signal_hook::low_level::unregister(wid) as u8));
    // the registry must be empty now for every signal the history touched
    #[allow(deprecated)]
    {
        let mut left = Vec::new();
        for s in [libc::SIGUSR1, 12, 14, 15] {
            if signal_hook_registry::unregister_signal(s) {
                left.push(s);
            }
        }
        report(&format!("leaked={:?};", left).replace(' ', ""));
    }
}

// ---------------------------------------------------------------------------------------------
// C17: origin extraction
// ---------------------------------------------------------------------------------------------

fn cause_name(c: &signal_hook::low_level::siginfo::Cause) -> String {
    format!("{:?}", c)
}

fn origin_line(tag: &str, signo: c_int, code: c_int, o: &signal_hook::low_level::siginfo::Origin, extra: &str) -> String {
    let (has, pid, uid) = match &o.process {
        Some(p) => (true, p.pid as i64, p.uid as i64),
        None => (false, 0, 0),
    };
    Obj::new(tag)
        .int("signo", signo as i64)
        .int("code", code as i64)
        .int("rsig", o.signal as i64)
        .str("cause", &cause_name(&o.cause))
        .boolean("has", has)
        .int("pid", pid)
        .int("uid", uid)
        .raw("x", extra)
        .done()
}

fn probe_origin(args: &Args) {
    use signal_hook::low_level::siginfo::Origin;
    // (a) synthetic records: every code the extractor distinguishes plus colliding ones
    let codes: Vec<c_int> = vec![
        0, 0x80, -1, -2, -3, -4, -5, -6, -60, 1, 2, 3, 4, 5, 6, 7, 8, 100, -100,
    ];
    let sigs: Vec<c_int> = if args.flag("all") { (1..=64).collect() } else { vec![10, 12, 15, 17, 14, 11, 29, 34] };
    for signo in &sigs {
        for code in &codes {
            // the values the "kernel" supplies: poison patterns, and the legitimate corner values
            // (a sender outside the receiver's pid namespace shows as pid 0; root is uid 0)
            for (wpid, wuid) in [(0x1234_5678i32, 0x0BAD_CAFEi32), (0, 0), (0, 1000), (1, 0), (i32::MAX, 65534)] {
                let mut info: libc::siginfo_t = unsafe { std::mem::zeroed() };
                info.si_signo = *signo;
                info.si_code = *code;
                unsafe {
                    let p = &mut info as *mut libc::siginfo_t as *mut i32;
                    *p.add(4) = wpid; // where si_pid lives
                    *p.add(5) = wuid; // where si_uid lives
                }
                let o = unsafe { Origin::extract(&info) };
                println!("{}", origin_line("origin_syn", *signo, *code, &o, &format!("[{},{}]", wpid, wuid)));
            }
        }
    }
    // (b) real deliveries, ground truth recorded independently
    let real_sigs: Vec<c_int> = if args.flag("all") {
        vec![1, 2, 3, 10, 12, 13, 14, 15, 17, 21, 23, 28, 34, 40, 64]
    } else {
        vec![10, 15, 34]
    };
    for how in ["kill", "raise", "sigqueue", "child_kill", "alarm", "timer", "child_exit", "child_killed", "child_stop"] {
        for sig in &real_sigs {
            let sig = match how {
                "alarm" => libc::SIGALRM,
                "child_exit" | "child_killed" | "child_stop" => libc::SIGCHLD,
                _ => *sig,
            };
            let st = fork_run(8000, || {
                real_origin(how, sig);
                0
            });
            println!(
                "{}",
                Obj::new("origin_real").str("how", how).int("sig", sig as i64).str("status", &st.text).raw("r", &kv_json(&st.report)).done()
            );
            if matches!(how, "alarm" | "child_exit" | "child_killed" | "child_stop") {
                break;
            }
        }
    }
}

extern "C" {
    fn sigqueue(pid: libc::pid_t, sig: c_int, value: libc::sigval) -> c_int;
    fn setitimer(which: c_int, new: *const libc::itimerval, old: *mut libc::itimerval) -> c_int;
}

fn real_origin(how: &str, sig: c_int) {
    use signal_hook::iterator::exfiltrator::WithOrigin;
    use signal_hook::iterator::SignalsInfo;
    let mut signals = SignalsInfo::<WithOrigin>::new(&[sig]).unwrap();
    let me = unsafe { libc::getpid() };
    let uid = unsafe { libc::getuid() };
    let mut expect_pid = me as i64;
    match how {
        "kill" => unsafe {
            libc::kill(me, sig);
        },
        "raise" => unsafe {
            libc::raise(sig);
        },
        "sigqueue" => unsafe {
            let v: libc::sigval = std::mem::zeroed();
            sigqueue(me, sig, v);
        },
        "child_kill" => unsafe {
            let c = libc::fork();
            if c == 0 {
                libc::kill(libc::getppid(), sig);
                libc::_exit(0);
            }
            expect_pid = c as i64;
            let mut s = 0;
            // Wait for the child without consuming a SIGCHLD record we care about.
            libc::waitpid(c, &mut s, 0);
        },
        "alarm" => unsafe {
            let it = libc::itimerval {
                it_interval: libc::timeval { tv_sec: 0, tv_usec: 0 },
                it_value: libc::timeval { tv_sec: 0, tv_usec: 20_000 },
            };
            setitimer(0, &it, std::ptr::null_mut());
            expect_pid = -1;
        },
        "timer" => unsafe {
            let mut sev: libc::sigevent = std::mem::zeroed();
            sev.sigev_notify = libc::SIGEV_SIGNAL;
            sev.sigev_signo = sig;
            let mut tid: libc::timer_t = std::mem::zeroed();
            if libc::timer_create(libc::CLOCK_MONOTONIC, &mut sev, &mut tid) == 0 {
                let its = libc::itimerspec {
                    it_interval: libc::timespec { tv_sec: 0, tv_nsec: 0 },
                    it_value: libc::timespec { tv_sec: 0, tv_nsec: 20_000_000 },
                };
                libc::timer_settime(tid, 0, &its, std::ptr::null_mut());
            }
            expect_pid = -1;
        },
        "child_exit" | "child_killed" | "child_stop" => unsafe {
            let c = libc::fork();
            if c == 0 {
                match how {
                    "child_exit" => libc::_exit(7),
                    "child_killed" => {
                        libc::raise(libc::SIGKILL);
                    }
                    _ => {
                        libc::raise(libc::SIGSTOP);
                    }
                }
                libc::_exit(0);
            }
            expect_pid = c as i64;
            if how == "child_stop" {
                std::thread::sleep(std::time::Duration::from_millis(100));
            }
        },
        _ => {}
    }
    // collect (bounded wait)
    let mut got = None;
    for _ in 0..300 {
        if let Some(o) = signals.pending().next() {
            got = Some(o);
            break;
        }
        std::thread::sleep(std::time::Duration::from_millis(2));
    }
    if how == "child_stop" {
        unsafe {
            libc::kill(expect_pid as i32, libc::SIGKILL);
        }
    }
    match got {
        Some(o) => {
            let (has, pid, ouid) = match &o.process {
                Some(p) => (1, p.pid as i64, p.uid as i64),
                None => (0, 0, 0),
            };
            report(&format!(
                "sig={};cause={};has={};pid={};uid={};me={};myuid={};expect_pid={};",
                o.signal,
                esc(&cause_name(&o.cause)),
                has,
                pid,
                ouid,
                me,
                uid,
                expect_pid
            ));
        }
        None => report("none;"),
    }
}

pub fn main(args: &Args, which: &str) -> i32 {
    match which {
        "default" => probe_default(args),
        "flags" => probe_flags(args),
        "reject" => probe_reject(args),
        "pipe" => probe_pipe(args),
        "signals" => probe_signals(args),
        "fresh" => probe_fresh(args),
        "stall" => probe_stall(args),
        "step" => probe_step(args),
        "flagsb" => probe_flagsb(args),
        "pipe_sibling" => probe_pipe_sibling(args),
        "dropstress" => probe_dropstress(args),
        "origin" => probe_origin(args),
        _ => {
            eprintln!("unknown probe {}", which);
            return 2;
        }
    }
    let _ = unsafe { std::fs::File::from_raw_fd(libc::dup(1)) }.flush();
    0
}
