//! Small-scope exploration of the real signal iterators (Signals / SignalsInfo<WithRawSiginfo> /
//! SignalDelivery + SignalIterator) under the scheduler: deliveries, consumer calls, close(),
//! add_signal() on separate threads, deliveries nested on the consumer's thread.

use std::collections::{HashMap, HashSet};
use std::fs::File;
use std::hash::{Hash, Hasher};
use std::io::{BufWriter, Write};
use std::os::unix::io::AsRawFd;
use std::os::unix::net::UnixStream;
use std::panic::{catch_unwind, AssertUnwindSafe};
use std::sync::{Arc, Mutex};

use libc::c_int;
use signal_hook::iterator::backend::{PollResult, SignalDelivery, SignalIterator};
use signal_hook::iterator::exfiltrator::{SignalOnly, WithRawSiginfo};
use signal_hook::iterator::{Handle, SignalsInfo};
use signal_hook_registry::verif::{self, Kind};

use crate::sched::{self, Body, Dfs, Event, Outcome, Random, Replay, RunCfg, RunResult, Strategy};
use crate::trace::{op_line, signature, signature_json, LocMap, Obj};
use crate::Args;

#[derive(Clone, Debug)]
enum Op {
    Wait,             // w   Signals::wait()
    Pending,          // p   Signals::pending()
    Forever(usize),   // fN  take up to N items from forever()
    PollBlocking(usize),    // bN  N calls of poll_signal with the blocking callback
    PollNonBlocking(usize), // nN  N calls of poll_signal with a non-blocking callback
    Close,            // c
    Add(c_int),       // a<sig>
    Deliver(c_int),   // D<sig>
    WaitDeliver(c_int), // W<sig>  wait until the library is the signal's disposition, then deliver
    CloneDrop,        // h   clone the handle and drop the clone
    IsClosed,         // q
    ShareBatch,       // y   consumer: take a batch (pending()) and hand it to whoever scans it (Y)
    ScanShared,       // Y   other thread: scan the batch the consumer handed over
}

/// A `Pending` batch is detached from the instance and `Send`: it may be scanned on another thread
/// while the instance already hands out the next one.
static SHARED_BATCH: Mutex<Option<Box<dyn Iterator<Item = (i64, i64)> + Send>>> = Mutex::new(None);

fn parse(s: &str) -> Vec<Op> {
    s.split(',')
        .map(|t| t.trim())
        .filter(|t| !t.is_empty())
        .map(|tok| {
            let (k, rest) = tok.split_at(1);
            let n: i64 = rest.parse().unwrap_or(1);
            match k {
                "w" => Op::Wait,
                "p" => Op::Pending,
                "f" => Op::Forever(n as usize),
                "b" => Op::PollBlocking(n as usize),
                "n" => Op::PollNonBlocking(n as usize),
                "c" => Op::Close,
                "a" => Op::Add(n as c_int),
                "D" => Op::Deliver(n as c_int),
                "W" => Op::WaitDeliver(n as c_int),
                "h" => Op::CloneDrop,
                "q" => Op::IsClosed,
                "y" => Op::ShareBatch,
                "Y" => Op::ScanShared,
                _ => panic!("bad op {}", tok),
            }
        })
        .collect()
}

/// The object under test, in one of three shapes.
enum Obj3 {
    Plain(SignalsInfo<SignalOnly>),
    Raw(SignalsInfo<WithRawSiginfo>),
    IterPlain(SignalIterator<SignalDelivery<UnixStream, SignalOnly>, SignalOnly>),
    IterRaw(SignalIterator<SignalDelivery<UnixStream, WithRawSiginfo>, WithRawSiginfo>),
}

fn raw_id(info: &libc::siginfo_t) -> i64 {
    // the simulated deliveries carry their id in si_uid (offset 20) and 1_000_000 + id in si_pid
    // (offset 16); anything else means the record is not a copy of one delivery's info
    let p = info as *const libc::siginfo_t as *const i32;
    let (pid, uid) = unsafe { (*p.add(4) as i64, *p.add(5) as i64) };
    if pid == 1_000_000 + uid && info.si_code == 0 {
        uid
    } else {
        -1
    }
}

fn blocking_cb(read: &mut UnixStream) -> Result<bool, std::io::Error> {
    use std::io::Read;
    loop {
        verif::syscall_blocking("read", read.as_raw_fd());
        match read.read(&mut [0u8]) {
            Ok(n) => {
                sched::note("cb", (n > 0) as u64, 1);
                break Ok(n > 0);
            }
            Err(e) => {
                if e.kind() != std::io::ErrorKind::Interrupted {
                    break Err(e);
                }
            }
        }
    }
}

fn nonblocking_cb(read: &mut UnixStream) -> Result<bool, std::io::Error> {
    verif::syscall("tryread", read.as_raw_fd());
    let mut b = [0u8; 1];
    let r = unsafe {
        libc::recv(read.as_raw_fd(), b.as_mut_ptr() as *mut libc::c_void, 1, libc::MSG_DONTWAIT)
    };
    sched::note("cb", (r > 0) as u64, 0);
    Ok(r > 0)
}

fn note_yield(sig: i64, id: i64) {
    sched::note("yield", sig as u64, id as u64);
}

fn consumer_op(obj: &mut Obj3, op: &Op) {
    match (obj, op) {
        (Obj3::Plain(s), Op::Wait) => {
            sched::note("call_wait", 0, 0);
            for sig in s.wait() {
                note_yield(sig as i64, 0);
            }
            sched::note("ret_wait", 0, 0);
        }
        (Obj3::Raw(s), Op::Wait) => {
            sched::note("call_wait", 0, 0);
            for info in s.wait() {
                note_yield(info.si_signo as i64, raw_id(&info));
            }
            sched::note("ret_wait", 0, 0);
        }
        (Obj3::Plain(s), Op::Pending) => {
            sched::note("call_pending", 0, 0);
            for sig in s.pending() {
                note_yield(sig as i64, 0);
            }
            sched::note("ret_pending", 0, 0);
        }
        (Obj3::Raw(s), Op::Pending) => {
            sched::note("call_pending", 0, 0);
            for info in s.pending() {
                note_yield(info.si_signo as i64, raw_id(&info));
            }
            sched::note("ret_pending", 0, 0);
        }
        (Obj3::Plain(s), Op::Forever(n)) => {
            sched::note("call_forever", *n as u64, 0);
            let mut got = 0;
            for sig in s.forever().take(*n) {
                note_yield(sig as i64, 0);
                got += 1;
            }
            sched::note("ret_forever", got, 0);
        }
        (Obj3::Raw(s), Op::Forever(n)) => {
            sched::note("call_forever", *n as u64, 0);
            let mut got = 0;
            for info in s.forever().take(*n) {
                note_yield(info.si_signo as i64, raw_id(&info));
                got += 1;
            }
            sched::note("ret_forever", got, 0);
        }
        (Obj3::IterPlain(it), Op::PollBlocking(n)) | (Obj3::IterPlain(it), Op::PollNonBlocking(n)) => {
            let blocking = matches!(op, Op::PollBlocking(_));
            for _ in 0..*n {
                sched::note("call_poll", blocking as u64, 0);
                let r = if blocking {
                    it.poll_signal(&mut blocking_cb)
                } else {
                    it.poll_signal(&mut nonblocking_cb)
                };
                match r {
                    PollResult::Signal(sig) => {
                        note_yield(sig as i64, 0);
                        sched::note("ret_poll", 1, 0);
                    }
                    PollResult::Pending => sched::note("ret_poll", 2, 0),
                    PollResult::Closed => {
                        sched::note("ret_poll", 3, 0);
                        break;
                    }
                    PollResult::Err(_) => sched::note("ret_poll", 4, 0),
                }
            }
        }
        (Obj3::IterRaw(it), Op::PollBlocking(n)) | (Obj3::IterRaw(it), Op::PollNonBlocking(n)) => {
            let blocking = matches!(op, Op::PollBlocking(_));
            for _ in 0..*n {
                sched::note("call_poll", blocking as u64, 0);
                let r = if blocking {
                    it.poll_signal(&mut blocking_cb)
                } else {
                    it.poll_signal(&mut nonblocking_cb)
                };
                match r {
                    PollResult::Signal(info) => {
                        note_yield(info.si_signo as i64, raw_id(&info));
                        sched::note("ret_poll", 1, 0);
                    }
                    PollResult::Pending => sched::note("ret_poll", 2, 0),
                    PollResult::Closed => {
                        sched::note("ret_poll", 3, 0);
                        break;
                    }
                    PollResult::Err(_) => sched::note("ret_poll", 4, 0),
                }
            }
        }
        (Obj3::Plain(s), Op::ShareBatch) => {
            sched::note("call_pending", 0, 0);
            let b = s.pending();
            *SHARED_BATCH.lock().unwrap() = Some(Box::new(b.map(|sig| (sig as i64, 0))));
            sched::note("ret_pending", 0, 0);
        }
        (Obj3::Raw(s), Op::ShareBatch) => {
            sched::note("call_pending", 0, 0);
            let b = s.pending();
            *SHARED_BATCH.lock().unwrap() = Some(Box::new(b.map(|info| (info.si_signo as i64, raw_id(&info)))));
            sched::note("ret_pending", 0, 0);
        }
        _ => sched::note("bad_consumer_op", 0, 0),
    }
}

fn handle_op(h: &Handle, op: &Op) {
    match op {
        Op::Close => {
            sched::note("call_close", 0, 0);
            h.close();
            sched::note("ret_close", 0, 0);
        }
        Op::Add(sig) => {
            sched::note("call_add", *sig as u64, 0);
            let r = catch_unwind(AssertUnwindSafe(|| h.add_signal(*sig)));
            match r {
                Ok(Ok(())) => sched::note("ret_add", *sig as u64, 1),
                Ok(Err(_)) => sched::note("ret_add", *sig as u64, 2),
                Err(_) => sched::note("ret_add", *sig as u64, 3),
            }
        }
        Op::Deliver(sig) => sched::deliver_here(*sig, sched::fresh_delivery_id()),
        Op::WaitDeliver(sig) => {
            verif::syscall_blocking("wait_lib", *sig);
            sched::deliver_here(*sig, sched::fresh_delivery_id());
        }
        Op::CloneDrop => {
            let c = h.clone();
            drop(c);
        }
        Op::ScanShared => {
            let b = SHARED_BATCH.lock().unwrap().take();
            if let Some(b) = b {
                for (sig, id) in b {
                    note_yield(sig, id);
                }
            }
        }
        Op::IsClosed => {
            let r = h.is_closed();
            sched::note("is_closed", r as u64, 0);
        }
        _ => sched::note("bad_handle_op", 0, 0),
    }
}

struct Scn {
    consumer: Vec<Op>,
    others: Vec<Vec<Op>>,
    signals: Vec<c_int>,
    raw: bool,
}

struct Built {
    bodies: Vec<Body>,
    locs: LocMap,
    handle: Handle,
    slots_base: usize,
    slot_size: usize,
    read_fd: c_int,
}

fn build(scn: &Scn) -> Built {
    *SHARED_BATCH.lock().unwrap() = None;
    unsafe { verif::reset() };
    for s in [10, 12, 14, 15, 17, 23, 28] {
        if ![9, 19].contains(&s) {
            let mut sa: libc::sigaction = unsafe { std::mem::zeroed() };
            sa.sa_sigaction = libc::SIG_DFL;
            unsafe { libc::sigaction(s, &sa, std::ptr::null_mut()) };
        }
    }
    let uses_poll = scn
        .consumer
        .iter()
        .any(|o| matches!(o, Op::PollBlocking(_) | Op::PollNonBlocking(_)));
    let mut locs = LocMap::default();
    let (d, f) = verif::registry_layout();
    locs.add_halflock(d, "D.");
    locs.add_halflock(f, "F.");
    let (obj, handle, layout, read_fd) = if uses_poll {
        let (read, write) = UnixStream::pair().unwrap();
        let fd = read.as_raw_fd();
        if scn.raw {
            let sd = SignalDelivery::with_pipe(read, write, WithRawSiginfo::default(), &scn.signals).unwrap();
            let lay = sd.verif_layout();
            let h = sd.handle();
            (Obj3::IterRaw(SignalIterator::new(sd)), h, lay, fd)
        } else {
            let sd = SignalDelivery::with_pipe(read, write, SignalOnly::default(), &scn.signals).unwrap();
            let lay = sd.verif_layout();
            let h = sd.handle();
            (Obj3::IterPlain(SignalIterator::new(sd)), h, lay, fd)
        }
    } else if scn.raw {
        let s = SignalsInfo::<WithRawSiginfo>::new(&scn.signals).unwrap();
        let lay = s.verif_layout();
        let h = s.handle();
        (Obj3::Raw(s), h, lay, -1)
    } else {
        let s = SignalsInfo::<SignalOnly>::new(&scn.signals).unwrap();
        let lay = s.verif_layout();
        let h = s.handle();
        (Obj3::Plain(s), h, lay, -1)
    };
    locs.add(layout[0], "closed");
    locs.add(layout[1], "idsmtx");
    for sig in 0..128usize {
        locs.add(layout[2] + sig * layout[3], &format!("slot{}", sig));
    }
    let mut bodies: Vec<Body> = Vec::new();
    let consumer = scn.consumer.clone();
    let obj = Mutex::new(Some(obj));
    bodies.push(Box::new(move || {
        let mut o = obj.lock().unwrap().take().unwrap();
        for op in &consumer {
            consumer_op(&mut o, op);
        }
        sched::note("consumer_done", 0, 0);
        // The instance is dropped here, on the consumer's thread.
        drop(o);
        sched::note("instance_dropped", 0, 0);
    }));
    for ops in &scn.others {
        let ops = ops.clone();
        let h = handle.clone();
        bodies.push(Box::new(move || {
            for op in &ops {
                handle_op(&h, op);
            }
        }));
    }
    Built {
        bodies,
        locs,
        handle,
        slots_base: layout[2],
        slot_size: layout[3],
        read_fd,
    }
}

fn slot_sig(b: &Built, loc: usize) -> Option<i64> {
    if loc >= b.slots_base && loc < b.slots_base + 128 * b.slot_size.max(1) {
        Some(((loc - b.slots_base) / b.slot_size.max(1)) as i64)
    } else {
        None
    }
}

fn normalise(b: &Built, res: &RunResult, raw: bool, hot: &HashSet<i64>) -> (Vec<String>, Vec<String>) {
    let mut fine = Vec::new();
    let mut abs = Vec::new();
    let mut frames: HashMap<(usize, usize), (i64, i64, i64)> = HashMap::new();
    for ev in &res.log {
        let t = if ev.thr == sched::CTL_THREAD { 100 } else { ev.thr as i64 + 1 };
        let d = ev.depth as i64;
        let key = (ev.thr, ev.depth);
        let base = |e: &str| Obj::new(e).int("t", t).int("d", d);
        if ev.kind == Kind::Event {
            let name = ev.name.as_str();
            let line = if name.starts_with("stuck:") {
                Some(base("stuck").str("who", &name[6..]).done())
            } else {
                match name {
                    "deliver_begin" => {
                        frames.insert(key, (0, 0, 0));
                        Some(base("deliver").int("sig", ev.a as i64).int("id", ev.b as i64).done())
                    }
                    "deliver_end" => {
                        let st = frames.remove(&key).unwrap_or((0, 0, 0));
                        Some(
                            base("return")
                                .int("sig", ev.a as i64)
                                .int("id", ev.b as i64)
                                .int("steps", st.0)
                                .int("locks", st.1)
                                .int("hints", st.2)
                                .int("allocs", ev.old as i64)
                                .int("frees", ev.new as i64)
                                .done(),
                        )
                    }
                    "yield" => Some(base("yield").int("sig", ev.a as i64).int("id", ev.b as i64).done()),
                    "cb" => Some(base("cb").int("ans", ev.a as i64).int("blocking", ev.b as i64).done()),
                    "call_wait" | "ret_wait" | "call_pending" | "ret_pending" | "call_close"
                    | "ret_close" | "consumer_done" | "instance_dropped" => Some(base(name).done()),
                    "call_forever" | "ret_forever" => Some(base(name).int("n", ev.a as i64).done()),
                    "call_poll" => Some(base("call_poll").int("blocking", ev.a as i64).done()),
                    "ret_poll" => Some(base("ret_poll").int("res", ev.a as i64).done()),
                    "call_add" => Some(base("call_add").int("sig", ev.a as i64).done()),
                    "ret_add" => Some(base("ret_add").int("sig", ev.a as i64).int("res", ev.b as i64).done()),
                    "is_closed" => Some(base("is_closed").int("v", ev.a as i64).done()),
                    "thread_done" => Some(base("done").done()),
                    "cell_write" if raw => Some(base("slot_put").int("i", ev.a as i64).done()),
                    "cell_take" if raw => Some(base("slot_get").int("i", ev.a as i64).done()),
                    _ => None,
                }
            };
            if let Some(l) = line {
                fine.push(l.clone());
                abs.push(l);
            }
        } else {
            if let Some(st) = frames.get_mut(&key) {
                st.0 += 1;
                match ev.kind {
                    Kind::MutexLock => st.1 += 1,
                    Kind::Yield | Kind::Spin => st.2 += 1,
                    _ => {}
                }
            }
            let role = b.locs.name(ev.loc);
            fine.push(op_line(ev, &role, &|v| v as i64));
            // abstract view of the shared-memory steps that the properties talk about
            let a = if let Some(sig) = slot_sig(b, ev.loc) {
                if !ev.ok && ev.kind == Kind::Cas && !hot.contains(&sig) {
                    continue;
                }
                match ev.kind {
                    Kind::Store if !raw => Some(base("flag_set").int("sig", sig).done()),
                    Kind::Cas | Kind::Swap if !raw => Some(
                        base("flag_take")
                            .int("sig", sig)
                            .boolean("ok", ev.ok)
                            .int("val", ev.new as i64)
                            .done(),
                    ),
                    Kind::Load if !raw => Some(base("flag_peek").int("sig", sig).int("v", ev.old as i64).done()),
                    _ => None,
                }
            } else if role == "closed" {
                match ev.kind {
                    Kind::Store => Some(base("closed_set").done()),
                    Kind::Load => Some(base("closed_load").int("v", ev.old as i64).done()),
                    _ => None,
                }
            } else if role == "idsmtx" {
                match ev.kind {
                    Kind::MutexLock => Some(base("ids_lock").boolean("ok", ev.ok).done()),
                    Kind::MutexUnlock => Some(base("ids_unlock").int("panicking", ev.a as i64).done()),
                    _ => None,
                }
            } else {
                match (ev.kind, ev.name.as_str()) {
                    (Kind::Syscall, "wake") => Some(base("wake").done()),
                    (Kind::Syscall, "flush") => Some(base("flush").done()),
                    (Kind::Syscall, "tryread") => Some(base("tryread").done()),
                    (Kind::SyscallBlocking, "read") => Some(base("read").done()),
                    _ => None,
                }
            };
            if let Some(l) = a {
                abs.push(l);
            }
        }
    }
    let mut tail = Vec::new();
    match &res.outcome {
        Outcome::Done => {}
        Outcome::Unstuck(who) => tail.push(Obj::new("was_stuck").int("t", 0).int("d", 0).str("who", who).done()),
        Outcome::Deadlock => tail.push(Obj::new("deadlock").int("t", 0).int("d", 0).int("hdepth", res.stuck.iter().map(|s| s.1 as i64).max().unwrap_or(0)).done()),
        Outcome::Lasso(why) => tail.push(
            Obj::new("livelock")
                .int("t", 0)
                .int("d", 0)
                .int("hdepth", res.stuck.iter().map(|s| s.1 as i64).max().unwrap_or(0))
                .str("why", why)
                .done(),
        ),
        Outcome::Livelock | Outcome::StepLimit => tail.push(Obj::new("livelock").int("t", 0).int("d", 0).int("hdepth", res.stuck.iter().map(|s| s.1 as i64).max().unwrap_or(0)).done()),
        Outcome::Aborted(r) if r.starts_with("watchdog") => tail.push(
            Obj::new("livelock")
                .int("t", 0)
                .int("d", 0)
                .int("hdepth", res.stuck.iter().map(|s| s.1 as i64).max().unwrap_or(0))
                .str("why", r)
                .done(),
        ),
        Outcome::Aborted(r) => tail.push(Obj::new("aborted").int("t", 0).int("d", 0).str("why", r).done()),
    }
    for (i, m) in &res.panics {
        tail.push(Obj::new("panic").int("t", *i as i64 + 1).int("d", 0).int("inh", m.starts_with("HANDLER:") as i64).str("msg", m).done());
    }
    fine.extend(tail.iter().cloned());
    abs.extend(tail);
    (fine, abs)
}

fn scn_from_args(args: &Args) -> Scn {
    Scn {
        consumer: parse(args.get("consumer").unwrap_or("w")),
        others: args
            .get("others")
            .unwrap_or("")
            .split(';')
            .filter(|s| !s.trim().is_empty())
            .map(parse)
            .collect(),
        signals: args
            .get("watch")
            .unwrap_or("10")
            .split(',')
            .filter(|s| !s.is_empty())
            .map(|s| s.parse().unwrap())
            .collect(),
        raw: args.flag("raw"),
    }
}

pub fn solo_signatures() -> String {
    let one = |consumer: &str, others: &str, which: usize| {
        let scn = Scn {
            consumer: parse(consumer),
            others: others.split(';').filter(|s| !s.is_empty()).map(parse).collect(),
            signals: vec![10],
            raw: false,
        };
        let b = build(&scn);
        // run thread `which` first to completion, then the rest (first-choice DFS does that when
        // it is thread 0; for others use a replay that prefers that thread)
        let mut codes = Vec::new();
        for _ in 0..400 {
            codes.push(format!("s{}", which));
        }
        let mut rp = Replay::new(codes);
        let mut cfg = RunCfg::default();
        let h = b.handle.clone();
        cfg.on_stuck = Some(Arc::new(move || {
            // (a close() that panics releases nobody: the run ends as a deadlock)
            catch_unwind(AssertUnwindSafe(|| h.close())).is_ok()
        }));
        let locs = b.locs.clone();
        let r = sched::run(b.bodies, &mut rp, &cfg);
        let log: Vec<Event> = r.log.iter().filter(|e| e.thr == which).cloned().collect();
        signature_json(&signature(&log, &locs))
    };
    format!(
        "{{\"add\":{},\"add_again\":{},\"action\":{},\"pending\":{},\"wait\":{},\"close\":{},\"poll_nonblocking\":{}}}",
        one("p", "a12", 1),
        one("p", "a10", 1),
        one("p", "D10", 1),
        one("p", "D10", 0),
        one("w", "D10", 0),
        one("p", "c", 1),
        one("n1", "D10", 0),
    )
}

pub fn main(args: &Args) -> i32 {
    if args.flag("signature") {
        println!("{}", solo_signatures());
        return 0;
    }
    let scn = scn_from_args(args);
    let max = args.num("max", 1_000_000);
    let nested = args.num("nested", 0);
    let out = args.get("out").unwrap_or("/verif/work/iterator").to_string();
    let mode = args.get("mode").unwrap_or("dfs").to_string();
    let seed = args.num("seed", 1) as u64;
    let fine_max = args.num("fine-max", 0);
    let mut fine_w = BufWriter::new(File::create(format!("{}.fine.ndjson", out)).unwrap());
    let mut abs_w = BufWriter::new(File::create(format!("{}.abs.ndjson", out)).unwrap());
    let mut sched_w = BufWriter::new(File::create(format!("{}.schedules.txt", out)).unwrap());
    let mut dfs = Dfs::new();
    let mut rnd = Random::new(seed);
    let mut count = 0usize;
    let mut events = 0usize;
    let mut distinct: HashSet<u64> = HashSet::new();
    let mut distinct_fine: HashSet<u64> = HashSet::new();
    let mut anomalies: Vec<String> = Vec::new();
    let mut exhausted = false;
    let mut stuck_runs = 0usize;
    let replay_codes: Option<Vec<String>> = args
        .get("replay")
        .map(|s| s.split_whitespace().map(|x| x.to_string()).collect());
    let watch_json = format!(
        "[{}]",
        scn.signals.iter().map(|s| s.to_string()).collect::<Vec<_>>().join(",")
    );
    loop {
        if count >= max {
            break;
        }
        let b = build(&scn);
        let mut cfg = RunCfg::default();
        cfg.signals = args
            .get("deliver")
            .map(|s| s.split(',').map(|x| x.parse().unwrap()).collect())
            .unwrap_or_else(|| scn.signals.clone());
        cfg.max_deliveries = nested;
        cfg.max_nested = args.num("depth", 1);
        cfg.deliver_on = match args.get("deliver-on").unwrap_or("consumer") {
            "all" => (0..1 + scn.others.len()).collect(),
            _ => vec![0],
        };
        cfg.deliver_at_start = false;
        cfg.post_points = args.flag("post-points");
        cfg.handler_atomic = args.flag("handler-atomic");
        cfg.preemption_bound = args.get("preempt").map(|s| s.parse().unwrap());
        // Slots of signals nobody watches or delivers are private to the consumer's scan.
        let hot: HashSet<c_int> = scn.signals.iter().chain(cfg.signals.iter()).copied().collect();
        let extra: HashSet<c_int> = scn
            .others
            .iter()
            .flatten()
            .filter_map(|o| match o {
                Op::Add(s) | Op::Deliver(s) | Op::WaitDeliver(s) => Some(*s),
                _ => None,
            })
            .collect();
        cfg.quiet = (0..128)
            .filter(|s| !hot.contains(s) && !extra.contains(s))
            .map(|s| b.slots_base + s as usize * b.slot_size)
            .collect();
        let h = b.handle.clone();
        cfg.on_stuck = Some(Arc::new(move || {
            // Everybody is blocked (typically the consumer in its blocking read with nothing to
            // report): release it by closing, from outside the scenario.
            // (a close() that panics releases nobody: the run ends as a deadlock)
            catch_unwind(AssertUnwindSafe(|| h.close())).is_ok()
        }));
        let Built { bodies, locs, handle, slots_base, slot_size, read_fd } = b;
        let res = if let Some(codes) = &replay_codes {
            let mut rp = Replay::new(codes.clone());
            sched::run(bodies, &mut rp, &cfg)
        } else if mode == "random" {
            sched::run(bodies, &mut rnd as &mut dyn Strategy, &cfg)
        } else {
            dfs.begin();
            sched::run(bodies, &mut dfs, &cfg)
        };
        drop(cfg);
        // Everything of the instance is gone now (the consumer dropped it, the other threads
        // dropped their handles, ours goes here): what is left in the registry is a leak.
        let done = matches!(res.outcome, Outcome::Done | Outcome::Unstuck(_));
        let leftover = if done {
            drop(handle);
            let (sigs, _) = verif::registry_content();
            sigs.iter().map(|(_, a)| a.len() as i64).sum::<i64>()
        } else {
            std::mem::forget(handle);
            -1
        };
        let handle = SignalsInfo::<SignalOnly>::new(&[] as &[c_int]).unwrap().handle();
        let b = Built { bodies: Vec::new(), locs, handle, slots_base, slot_size, read_fd };
        let hot64: HashSet<i64> = hot.iter().chain(extra.iter()).map(|s| *s as i64).collect();
        let (fine, mut abs) = normalise(&b, &res, scn.raw, &hot64);
        if leftover >= 0 {
            abs.push(Obj::new("final_actions").int("t", 0).int("d", 0).int("n", leftover).done());
        }
        if matches!(res.outcome, Outcome::Unstuck(_)) {
            stuck_runs += 1;
        }
        let codes: Vec<String> = res.schedule.iter().map(|c| c.code()).collect();
        let reset = Obj::new("reset")
            .int("t", 0)
            .int("d", 0)
            .int("n", count as i64)
            .raw("watch", &watch_json)
            .boolean("raw", scn.raw)
            .done();
        let mut hsh = std::collections::hash_map::DefaultHasher::new();
        fine.hash(&mut hsh);
        if distinct_fine.insert(hsh.finish()) && distinct_fine.len() <= fine_max {
            writeln!(fine_w, "{}", reset).unwrap();
            for l in &fine {
                writeln!(fine_w, "{}", l).unwrap();
            }
        }
        let mut hsh = std::collections::hash_map::DefaultHasher::new();
        abs.hash(&mut hsh);
        if distinct.insert(hsh.finish()) {
            writeln!(abs_w, "{}", reset).unwrap();
            for l in &abs {
                writeln!(abs_w, "{}", l).unwrap();
            }
        }
        writeln!(sched_w, "{}", codes.join(" ")).unwrap();
        events += fine.len();
        let bad = !matches!(res.outcome, Outcome::Done | Outcome::Unstuck(_)) || !res.panics.is_empty();
        if bad {
            if anomalies.len() < 5 {
                anomalies.push(format!(
                    "{{\"n\":{},\"outcome\":\"{}\",\"panics\":{},\"schedule\":\"{}\"}}",
                    count,
                    format!("{:?}", res.outcome).replace('"', "'"),
                    res.panics.len(),
                    codes.join(" ")
                ));
            }
            if !matches!(res.outcome, Outcome::Done | Outcome::Unstuck(_)) && anomalies.len() >= 3 {
                count += 1;
                break;
            }
        }
        drop(b);
        count += 1;
        if replay_codes.is_some() {
            break;
        }
        if mode == "dfs" && !dfs.advance() {
            exhausted = true;
            break;
        }
    }
    let end = Obj::new("reset").int("t", 0).int("d", 0).int("n", -1).raw("watch", "[]").boolean("raw", false).done();
    writeln!(fine_w, "{}", end).unwrap();
    writeln!(abs_w, "{}", end).unwrap();
    fine_w.flush().unwrap();
    abs_w.flush().unwrap();
    sched_w.flush().unwrap();
    println!(
        "{{\"schedules\":{},\"events\":{},\"distinct_abs_traces\":{},\"distinct_fine_traces\":{},\"exhausted\":{},\"nondeterminism\":{},\"stuck_runs\":{},\"anomalies\":[{}]}}",
        count,
        events,
        distinct.len(),
        distinct_fine.len(),
        exhausted,
        dfs.nondeterminism,
        stuck_runs,
        anomalies.join(",")
    );
    0
}
