//! Small-scope exploration of the real global registry (register / unregister /
//! unregister_signal / the dispatcher), under the scheduler.

use std::collections::{HashMap, HashSet};
use std::fs::File;
use std::hash::{Hash, Hasher};
use std::io::{BufWriter, Write};
use std::panic::{catch_unwind, AssertUnwindSafe};
use std::sync::atomic::Ordering;
use std::sync::{Arc, Mutex};

use libc::c_int;
use signal_hook_registry::verif::{self, shim, Kind};
use signal_hook_registry::SigId;

use crate::sched::{self, Body, Dfs, Event, Outcome, Random, Replay, RunCfg, RunResult, Strategy};
use crate::trace::{op_line, signature, signature_json, LocMap, Obj, PtrIds};
use crate::Args;

#[derive(Clone, Debug)]
pub enum OpSpec {
    Reg(c_int, u64),
    Unreg(u64),
    UnregSig(c_int),
    Forbidden(c_int, u64),
    /// register_signal_unchecked (the OS's verdict is passed through)
    Unchecked(c_int, u64),
    Deliver(c_int),
    /// Wait until the kernel routes the signal to the library, then take one delivery.
    WaitDeliver(c_int),
    /// Other code of the process installs its own handler for the signal with sigaction (kind:
    /// 1 plain, 2 info, 3 plain+SA_RESTART|SA_NODEFER, 4 info+..., 5 ignore) - only while the library
    /// has not taken the signal over yet.
    Foreign(c_int, u64),
}

pub fn parse_script(s: &str) -> Vec<OpSpec> {
    let mut v = Vec::new();
    for tok in s.split(',').map(|t| t.trim()).filter(|t| !t.is_empty()) {
        let (k, rest) = tok.split_at(1);
        let mut it = rest.split(':');
        let a: i64 = it.next().unwrap_or("0").parse().unwrap_or(0);
        let b: u64 = it.next().unwrap_or("0").parse().unwrap_or(0);
        v.push(match k {
            "R" => OpSpec::Reg(a as c_int, b),
            "U" => OpSpec::Unreg(a as u64),
            "S" => OpSpec::UnregSig(a as c_int),
            "X" => OpSpec::Forbidden(a as c_int, b),
            "N" => OpSpec::Unchecked(a as c_int, b),
            "D" => OpSpec::Deliver(a as c_int),
            "W" => OpSpec::WaitDeliver(a as c_int),
            "F" => OpSpec::Foreign(a as c_int, b),
            _ => panic!("bad op {}", tok),
        });
    }
    v
}

/// Captured by every registered action; its destructor tells who releases the action, where.
struct Canary {
    tag: u64,
}

impl Drop for Canary {
    fn drop(&mut self) {
        sched::note("act_drop", self.tag, 0);
        if self.tag >= 90 && !std::thread::panicking() {
            panic!("destructor of captured state {} panics", self.tag);
        }
    }
}

pub struct World {
    ids: Mutex<HashMap<u64, SigId>>,
    /// A harness-owned shim atomic touched by every action: a scheduling point inside the action.
    probe: shim::AtomicUsize,
}

fn run_op(w: &Arc<World>, op: &OpSpec) {
    match op {
        OpSpec::Reg(sig, tag) | OpSpec::Forbidden(sig, tag) | OpSpec::Unchecked(sig, tag) => {
            sched::note("call_reg", *tag, *sig as u64);
            let canary = Canary { tag: *tag };
            let w2 = w.clone();
            let tag2 = *tag;
            let action = move || {
                let _keep = &canary;
                sched::note("act_begin", tag2, 0);
                w2.probe.store(tag2 as usize, Ordering::Relaxed);
                sched::note("act_end", tag2, 0);
            };
            let unchecked = matches!(op, OpSpec::Unchecked(..));
            let r = catch_unwind(AssertUnwindSafe(|| unsafe {
                if unchecked {
                    signal_hook_registry::register_signal_unchecked(*sig, action)
                } else {
                    signal_hook_registry::register(*sig, action)
                }
            }));
            match r {
                Ok(Ok(id)) => {
                    w.ids.lock().unwrap().insert(*tag, id);
                    let (_, aid) = verif::id_of(id);
                    sched::note("ret_reg", *tag, aid as u64);
                }
                Ok(Err(e)) => {
                    sched::note("ret_reg_err", *tag, e.raw_os_error().unwrap_or(0) as u64);
                }
                Err(_) => {
                    sched::note("ret_reg_panic", *tag, 0);
                }
            }
        }
        OpSpec::Unreg(tag) => {
            let id = w.ids.lock().unwrap().get(tag).copied();
            match id {
                Some(id) => {
                    sched::note("call_unreg", *tag, 0);
                    match catch_unwind(AssertUnwindSafe(|| signal_hook_registry::unregister(id))) {
                        Ok(r) => sched::note("ret_unreg", *tag, r as u64),
                        Err(_) => sched::note("ret_unreg_panic", *tag, 0),
                    }
                }
                None => sched::note("unreg_unknown", *tag, 0),
            }
        }
        OpSpec::UnregSig(sig) => {
            sched::note("call_unregsig", *sig as u64, 0);
            #[allow(deprecated)]
            let r = signal_hook_registry::unregister_signal(*sig);
            sched::note("ret_unregsig", *sig as u64, r as u64);
        }
        OpSpec::Deliver(sig) => {
            sched::deliver_here(*sig, sched::fresh_delivery_id());
        }
        OpSpec::WaitDeliver(sig) => {
            verif::syscall_blocking("wait_lib", *sig);
            sched::deliver_here(*sig, sched::fresh_delivery_id());
        }
        OpSpec::Foreign(sig, kind) => {
            // one step of this thread: nobody else runs between the test and the sigaction
            if sched::disposition_is_lib(*sig) {
                sched::note("foreign_skipped", *sig as u64, *kind);
            } else {
                let k = match kind {
                    1 => "plain",
                    2 => "info",
                    3 => "plainR",
                    4 => "infoR",
                    _ => "ign",
                };
                set_disposition(*sig, k);
                sched::note("foreign_install", *sig as u64, *kind);
            }
        }
    }
}

extern "C" fn prev_plain(sig: c_int) {
    sched::note("prev_plain", sig as u64, 0);
}

extern "C" fn prev_info(sig: c_int, info: *mut libc::siginfo_t, ctx: *mut libc::c_void) {
    // Only trust the pointer if it is the one the delivery passed in (a chained handler invoked
    // with the wrong convention gets whatever was in the argument registers).
    let expected = sched::EXPECTED_INFO.with(|c| c.get());
    let id = if info as usize != expected || ctx as usize != 0x5151 {
        999_999
    } else {
        unsafe { *(info as *const i32).add(5) as u64 }
    };
    sched::note("prev_info", sig as u64, id);
}

fn set_disposition(sig: c_int, kind: &str) {
    let mut sa: libc::sigaction = unsafe { std::mem::zeroed() };
    match kind {
        "plain" => sa.sa_sigaction = prev_plain as usize,
        "info" => {
            sa.sa_sigaction = prev_info as usize;
            sa.sa_flags = libc::SA_SIGINFO;
        }
        "infoR" => {
            sa.sa_sigaction = prev_info as usize;
            sa.sa_flags = libc::SA_SIGINFO | libc::SA_RESTART | libc::SA_NODEFER;
        }
        "plainR" => {
            sa.sa_sigaction = prev_plain as usize;
            sa.sa_flags = libc::SA_RESTART | libc::SA_NODEFER;
        }
        "ign" => sa.sa_sigaction = libc::SIG_IGN,
        _ => sa.sa_sigaction = libc::SIG_DFL,
    }
    unsafe { libc::sigaction(sig, &sa, std::ptr::null_mut()) };
}

pub struct Scn {
    pub threads: Vec<Vec<OpSpec>>,
    pub pre: Vec<OpSpec>,
    pub prev: Vec<(c_int, String)>,
    pub signals: Vec<c_int>,
}

pub struct Built {
    pub world: Arc<World>,
    pub bodies: Vec<Body>,
    pub locs: LocMap,
    pub pre: Vec<Event>,
    pub d_data: usize,
    pub f_data: usize,
    pub init_ptrs: (u64, u64),
}

pub fn all_signals(scn: &Scn) -> Vec<c_int> {
    let mut s: HashSet<c_int> = scn.signals.iter().copied().collect();
    for ops in scn.threads.iter().chain(std::iter::once(&scn.pre)) {
        for op in ops {
            match op {
                OpSpec::Reg(x, _)
                | OpSpec::UnregSig(x)
                | OpSpec::Deliver(x)
                | OpSpec::WaitDeliver(x) => {
                    s.insert(*x);
                }
                OpSpec::Foreign(x, _) => {
                    s.insert(*x);
                }
                _ => {}
            }
        }
    }
    let mut v: Vec<c_int> = s.into_iter().filter(|x| ![9, 19, 4, 8, 11].contains(x)).collect();
    v.sort();
    v
}

pub fn build(scn: &Scn) -> Built {
    // Fresh registry; every signal we use back to its configured "previous" disposition.
    unsafe { verif::reset() };
    for sig in all_signals(scn) {
        set_disposition(sig, "dfl");
    }
    for (sig, kind) in &scn.prev {
        set_disposition(*sig, kind);
    }
    let world = Arc::new(World {
        ids: Mutex::new(HashMap::new()),
        probe: shim::AtomicUsize::new(0),
    });
    let (d, f) = verif::registry_layout();
    let mut locs = LocMap::default();
    locs.add_halflock(d, "D.");
    locs.add_halflock(f, "F.");
    locs.add(&world.probe as *const _ as usize, "probe");
    sched::ctl_log_begin();
    for op in &scn.pre {
        run_op(&world, op);
    }
    let pre = sched::ctl_log_take();
    let init_ptrs = unsafe {
        (
            *(d[0] as *const usize) as u64,
            *(f[0] as *const usize) as u64,
        )
    };
    let mut bodies: Vec<Body> = Vec::new();
    for ops in &scn.threads {
        let ops = ops.clone();
        let w = world.clone();
        bodies.push(Box::new(move || {
            for op in &ops {
                run_op(&w, op);
            }
        }));
    }
    Built {
        world,
        bodies,
        locs,
        pre,
        d_data: d[0],
        f_data: f[0],
        init_ptrs,
    }
}

struct FrameStats {
    steps: i64,
    locks: i64,
    hints: i64,
}

fn lines_of(
    log: &[Event],
    b: &Built,
    ids: &mut PtrIds,
    fine: &mut Vec<String>,
    abs: &mut Vec<String>,
) {
    let mut frames: HashMap<(usize, usize), FrameStats> = HashMap::new();
    for ev in log {
        let t = if ev.thr == sched::CTL_THREAD { 100 } else { ev.thr as i64 + 1 };
        let d = ev.depth as i64;
        let key = (ev.thr, ev.depth);
        if ev.kind == Kind::Event {
            let base = |e: &str| Obj::new(e).int("t", t).int("d", d);
            let hl = |addr: u64| {
                if addr as usize == b.d_data {
                    "D"
                } else if addr as usize == b.f_data {
                    "F"
                } else {
                    "?"
                }
            };
            let line = match ev.name.as_str() {
                "call_reg" => Some(base("call_reg").int("tag", ev.a as i64).int("sig", ev.b as i64).done()),
                "ret_reg" => Some(base("ret_reg").int("tag", ev.a as i64).int("id", ev.b as i64).done()),
                "ret_reg_err" => Some(base("ret_reg_err").int("tag", ev.a as i64).int("errno", ev.b as i64).done()),
                "ret_reg_panic" => Some(base("ret_reg_panic").int("tag", ev.a as i64).done()),
                "call_unreg" => Some(base("call_unreg").int("tag", ev.a as i64).done()),
                "ret_unreg" => Some(base("ret_unreg").int("tag", ev.a as i64).int("res", ev.b as i64).done()),
                "ret_unreg_panic" => Some(base("ret_unreg_panic").int("tag", ev.a as i64).done()),
                "call_unregsig" => Some(base("call_unregsig").int("sig", ev.a as i64).done()),
                "ret_unregsig" => Some(base("ret_unregsig").int("sig", ev.a as i64).int("res", ev.b as i64).done()),
                "act_begin" => Some(base("act_begin").int("tag", ev.a as i64).done()),
                "act_end" => Some(base("act_end").int("tag", ev.a as i64).done()),
                "act_drop" => Some(base("act_drop").int("tag", ev.a as i64).done()),
                "prev_plain" => Some(base("prev").int("sig", ev.a as i64).str("conv", "plain").int("id", 0).done()),
                "prev_info" => Some(base("prev").int("sig", ev.a as i64).str("conv", "info").int("id", ev.b as i64).done()),
                "disp_lib" => Some(base("disp_lib").int("sig", ev.a as i64).done()),
                "foreign_install" => Some(base("foreign_install").int("sig", ev.a as i64).int("k", ev.b as i64).done()),
                "foreign_skipped" => Some(base("foreign_skipped").int("sig", ev.a as i64).done()),
                "deliver_begin" => {
                    frames.insert(key, FrameStats { steps: 0, locks: 0, hints: 0 });
                    Some(base("deliver").int("sig", ev.a as i64).int("id", ev.b as i64).done())
                }
                "deliver_end" => {
                    let st = frames.remove(&key).unwrap_or(FrameStats { steps: 0, locks: 0, hints: 0 });
                    Some(
                        base("return")
                            .int("sig", ev.a as i64)
                            .int("id", ev.b as i64)
                            .int("steps", st.steps)
                            .int("locks", st.locks)
                            .int("hints", st.hints)
                            .int("allocs", ev.old as i64)
                            .int("frees", ev.new as i64)
                            .done(),
                    )
                }
                "thread_done" => Some(base("done").done()),
                "hl_alloc" => {
                    let id = ids.alloc(ev.a);
                    Some(base("alloc").str("h", hl(ev.b)).int("s", id).done())
                }
                "hl_publish" => Some(base("publish").str("h", hl(ev.b)).int("s", ids.id(ev.a)).done()),
                "hl_open" => Some(base("open").str("h", hl(ev.b)).int("s", ids.id(ev.a)).done()),
                "hl_close" => Some(base("close").int("s", ids.id(ev.a)).done()),
                "hl_free" => Some(base("free").str("h", hl(ev.b)).int("s", ids.id(ev.a)).done()),
                _ => None,
            };
            if let Some(l) = line {
                fine.push(l.clone());
                abs.push(l);
            }
        } else {
            if let Some(st) = frames.get_mut(&key) {
                st.steps += 1;
                match ev.kind {
                    Kind::MutexLock => st.locks += 1,
                    Kind::Yield | Kind::Spin => st.hints += 1,
                    _ => {}
                }
            }
            let role = b.locs.name(ev.loc);
            let is_ptr = role.ends_with("data");
            fine.push(op_line(ev, &role, &|v| if is_ptr { ids.id(v) } else { v as i64 }));
        }
    }
}

pub fn normalise(b: &Built, res: &RunResult) -> (Vec<String>, Vec<String>) {
    let mut ids = PtrIds::default();
    // Snapshot ids: 1 = initial data snapshot, 2 = initial fallback snapshot.
    ids.alloc(b.init_ptrs.0);
    ids.alloc(b.init_ptrs.1);
    let mut fine = Vec::new();
    let mut abs = Vec::new();
    // NB: the set-up ran before the initial pointers were sampled, so its allocations are
    // numbered from 3 on like all the others; only the last two pointers matter afterwards.
    let mut pre_ids = PtrIds::default();
    lines_of(&b.pre, b, &mut pre_ids, &mut Vec::new(), &mut Vec::new());
    let mut pre_fine = Vec::new();
    let mut pre_abs = Vec::new();
    {
        // Set-up events are reported without half-lock detail (only calls/returns/drops).
        let mut scratch = PtrIds::default();
        lines_of(&b.pre, b, &mut scratch, &mut pre_fine, &mut pre_abs);
        pre_abs.retain(|l| {
            !(l.starts_with("{\"e\":\"alloc\"")
                || l.starts_with("{\"e\":\"publish\"")
                || l.starts_with("{\"e\":\"free\"")
                || l.starts_with("{\"e\":\"open\"")
                || l.starts_with("{\"e\":\"close\""))
        });
    }
    abs.extend(pre_abs.iter().cloned());
    fine.extend(pre_abs);
    lines_of(&res.log, b, &mut ids, &mut fine, &mut abs);
    let mut tail = Vec::new();
    match &res.outcome {
        Outcome::Done => {}
        Outcome::Unstuck(_) | Outcome::Deadlock => {
            let who: Vec<i64> = res.stuck.iter().map(|s| s.0 as i64 + 1).collect();
            tail.push(Obj::new("deadlock").int("t", 0).int("d", 0).ints("stuck", &who).int("hdepth", res.stuck.iter().map(|s| s.1 as i64).max().unwrap_or(0)).done())
        }
        Outcome::Lasso(why) => tail.push(
            Obj::new("livelock")
                .int("t", 0)
                .int("d", 0)
                .int("hdepth", res.stuck.iter().map(|s| s.1 as i64).max().unwrap_or(0))
                .str("why", why)
                .done(),
        ),
        Outcome::Livelock | Outcome::StepLimit => {
            tail.push(Obj::new("livelock").int("t", 0).int("d", 0).int("hdepth", res.stuck.iter().map(|s| s.1 as i64).max().unwrap_or(0)).done())
        }
        Outcome::Aborted(r) if r.starts_with("watchdog") => tail.push(
            Obj::new("livelock")
                .int("t", 0)
                .int("d", 0)
                .int("hdepth", res.stuck.iter().map(|s| s.1 as i64).max().unwrap_or(0))
                .str("why", r)
                .done(),
        ),
        Outcome::Aborted(r) => tail.push(Obj::new("aborted").int("t", 0).int("d", 0).str("why", r).done()),
    }
    for (i, m) in &res.panics {
        tail.push(Obj::new("panic").int("t", *i as i64 + 1).int("d", 0).int("inh", m.starts_with("HANDLER:") as i64).str("msg", m).done());
    }
    if res.outcome == Outcome::Done {
        // What the registry holds now, per signal in dispatch order.
        let (sigs, next) = verif::registry_content();
        for (sig, acts) in sigs {
            let v: Vec<i64> = acts.iter().map(|x| *x as i64).collect();
            tail.push(Obj::new("final").int("t", 0).int("d", 0).int("sig", sig as i64).ints("ids", &v).done());
        }
        tail.push(Obj::new("final_next").int("t", 0).int("d", 0).int("next", next as i64).done());
    }
    fine.extend(tail.iter().cloned());
    abs.extend(tail);
    (fine, abs)
}

pub fn scn_from_args(args: &Args) -> Scn {
    let threads = args
        .get("threads")
        .unwrap_or("")
        .split(';')
        .filter(|s| !s.trim().is_empty())
        .map(parse_script)
        .collect();
    let pre = parse_script(args.get("pre").unwrap_or(""));
    let prev = args
        .get("prev")
        .unwrap_or("")
        .split(',')
        .filter(|s| !s.is_empty())
        .map(|s| {
            let mut it = s.split(':');
            (it.next().unwrap().parse().unwrap(), it.next().unwrap_or("dfl").to_string())
        })
        .collect();
    let signals = args
        .get("signals")
        .unwrap_or("")
        .split(',')
        .filter(|s| !s.is_empty())
        .map(|s| s.parse().unwrap())
        .collect();
    Scn { threads, pre, prev, signals }
}

pub fn solo_signatures() -> String {
    // dispatcher alone (one registered action), first registration alone, later registration,
    // unregister alone.
    let one = |threads: &str, pre: &str| {
        let scn = Scn {
            threads: threads.split(';').map(parse_script).collect(),
            pre: parse_script(pre),
            prev: vec![],
            signals: vec![],
        };
        let b = build(&scn);
        let mut first = Dfs::new();
        let mut cfg = RunCfg::default();
        cfg.watch = all_signals(&scn);
        let bodies = b.bodies;
        let r = sched::run(bodies, &mut first, &cfg);
        let mut sig = signature(&r.log, &b.locs);
        // where the disposition switched, as a pseudo step
        let mut pos = 0usize;
        let mut out = Vec::new();
        for ev in &r.log {
            if ev.kind != Kind::Event {
                out.push(sig[pos].clone());
                pos += 1;
            } else if ev.name == "disp_lib" {
                out.push(("sigaction".to_string(), "kernel".to_string(), String::new(), String::new()));
            }
        }
        sig = out;
        signature_json(&sig)
    };
    format!(
        "{{\"dispatch\":{},\"register_first\":{},\"register_again\":{},\"unregister\":{}}}",
        one("D10", "R10:1"),
        one("R10:1", ""),
        one("R10:2", "R10:1"),
        one("U1", "R10:1"),
    )
}

pub fn main(args: &Args) -> i32 {
    if args.flag("signature") {
        println!("{}", solo_signatures());
        return 0;
    }
    let scn = scn_from_args(args);
    let max = args.num("max", 1_000_000);
    let nested = args.num("nested", 0);
    let out = args.get("out").unwrap_or("/verif/work/registry").to_string();
    let mode = args.get("mode").unwrap_or("dfs").to_string();
    let seed = args.num("seed", 1) as u64;
    let fine_max = args.num("fine-max", usize::MAX);
    let mut fine_w = BufWriter::new(File::create(format!("{}.fine.ndjson", out)).unwrap());
    let mut abs_w = BufWriter::new(File::create(format!("{}.abs.ndjson", out)).unwrap());
    let mut sched_w = BufWriter::new(File::create(format!("{}.schedules.txt", out)).unwrap());
    let mut dfs = Dfs::new();
    let mut rnd = Random::new(seed);
    let mut count = 0usize;
    let mut events = 0usize;
    let mut distinct: HashSet<u64> = HashSet::new();
    let mut distinct_fine: HashSet<u64> = HashSet::new();
    let mut anomalies: Vec<String> = Vec::new();
    let mut exhausted = false;
    let replay_codes: Option<Vec<String>> = args
        .get("replay")
        .map(|s| s.split_whitespace().map(|x| x.to_string()).collect());
    let sigs = all_signals(&scn);
    loop {
        if count >= max {
            break;
        }
        let b = build(&scn);
        let mut cfg = RunCfg::default();
        cfg.signals = if scn.signals.is_empty() { sigs.clone() } else { scn.signals.clone() };
        cfg.watch = sigs.clone();
        cfg.deliver_requires_lib = true;
        cfg.max_deliveries = nested;
        cfg.max_nested = args.num("depth", 1);
        cfg.deliver_on = (0..scn.threads.len()).collect();
        cfg.deliver_at_start = false;
        cfg.post_points = args.flag("post-points");
        cfg.handler_atomic = args.flag("handler-atomic");
        cfg.preemption_bound = args.get("preempt").map(|s| s.parse().unwrap());
        let Built { world, bodies, locs, pre, d_data, f_data, init_ptrs } = b;
        let res = if let Some(codes) = &replay_codes {
            let mut rp = Replay::new(codes.clone());
            sched::run(bodies, &mut rp, &cfg)
        } else if mode == "random" {
            sched::run(bodies, &mut rnd as &mut dyn Strategy, &cfg)
        } else {
            dfs.begin();
            sched::run(bodies, &mut dfs, &cfg)
        };
        let b = Built { world, bodies: Vec::new(), locs, pre, d_data, f_data, init_ptrs };
        let (fine, abs) = normalise(&b, &res);
        let codes: Vec<String> = res.schedule.iter().map(|c| c.code()).collect();
        let prev_json = format!(
            "[{}]",
            scn.prev
                .iter()
                .map(|(s, k)| format!("[{},\"{}\"]", s, k))
                .collect::<Vec<_>>()
                .join(",")
        );
        let reset = Obj::new("reset")
            .int("t", 0)
            .int("d", 0)
            .int("n", count as i64)
            .raw("prev", &prev_json)
            .done();
        let mut h = std::collections::hash_map::DefaultHasher::new();
        fine.hash(&mut h);
        if distinct_fine.insert(h.finish()) && distinct_fine.len() <= fine_max {
            writeln!(fine_w, "{}", reset).unwrap();
            for l in &fine {
                writeln!(fine_w, "{}", l).unwrap();
            }
        }
        let mut h = std::collections::hash_map::DefaultHasher::new();
        abs.hash(&mut h);
        if distinct.insert(h.finish()) {
            writeln!(abs_w, "{}", reset).unwrap();
            for l in &abs {
                writeln!(abs_w, "{}", l).unwrap();
            }
        }
        writeln!(sched_w, "{}", codes.join(" ")).unwrap();
        events += fine.len();
        if res.outcome != Outcome::Done || !res.panics.is_empty() {
            if anomalies.len() < 5 {
                anomalies.push(format!(
                    "{{\"n\":{},\"outcome\":\"{}\",\"panics\":{},\"schedule\":\"{}\"}}",
                    count,
                    format!("{:?}", res.outcome).replace('"', "'"),
                    res.panics.len(),
                    codes.join(" ")
                ));
            }
            if res.outcome != Outcome::Done && anomalies.len() >= 3 {
                count += 1;
                break;
            }
        }
        count += 1;
        if replay_codes.is_some() {
            break;
        }
        if mode == "dfs" && !dfs.advance() {
            exhausted = true;
            break;
        }
    }
    let end = Obj::new("reset").int("t", 0).int("d", 0).int("n", -1).done();
    writeln!(fine_w, "{}", end).unwrap();
    writeln!(abs_w, "{}", end).unwrap();
    fine_w.flush().unwrap();
    abs_w.flush().unwrap();
    sched_w.flush().unwrap();
    println!(
        "{{\"schedules\":{},\"events\":{},\"distinct_abs_traces\":{},\"distinct_fine_traces\":{},\"exhausted\":{},\"nondeterminism\":{},\"anomalies\":[{}]}}",
        count,
        events,
        distinct.len(),
        distinct_fine.len(),
        exhausted,
        dfs.nondeterminism,
        anomalies.join(",")
    );
    0
}
