//! Deterministic cooperative scheduler over the `sighook_verif` shim.
//!
//! Virtual threads are real OS threads, but exactly one of them runs at any time: every shim
//! operation first parks its thread in `before()`, the controller picks who goes next (a Step of
//! one thread, a forced spurious weak-CAS failure, or a simulated signal delivery nested on a
//! parked thread), and `after()` appends the outcome to a totally ordered log.

use std::cell::Cell;
use std::collections::HashMap;
use std::panic::{catch_unwind, AssertUnwindSafe};
use std::sync::atomic::{AtomicUsize, Ordering};
use std::sync::{Arc, Condvar, Mutex, OnceLock};

use libc::c_int;
use signal_hook_registry::verif::{self, Hooks, Kind, Op, DIRECTIVE_SPURIOUS};

thread_local! {
    static VTID: Cell<Option<usize>> = const { Cell::new(None) };
    /// The run this virtual thread belongs to; a thread leaked by an aborted run must never act
    /// in a later one.
    static EPOCH: Cell<u64> = const { Cell::new(0) };
    /// Allocation accounting for C03: allocator calls made by code under test while the thread
    /// is inside a (simulated) signal delivery. Harness code raises IN_HARNESS around itself.
    pub static HANDLER_DEPTH: Cell<usize> = const { Cell::new(0) };
    pub static IN_HARNESS: Cell<usize> = const { Cell::new(0) };
    pub static H_ALLOCS: Cell<u64> = const { Cell::new(0) };
    pub static H_FREES: Cell<u64> = const { Cell::new(0) };
    /// Address of the siginfo record the innermost simulated delivery on this thread passes to
    /// the dispatcher (so that a chained handler can check it got the very same pointer before
    /// dereferencing anything).
    pub static EXPECTED_INFO: Cell<usize> = const { Cell::new(0) };
}

pub struct HarnessGuard;

impl HarnessGuard {
    pub fn new() -> Self {
        let _ = IN_HARNESS.try_with(|c| c.set(c.get() + 1));
        HarnessGuard
    }
}

impl Drop for HarnessGuard {
    fn drop(&mut self) {
        let _ = IN_HARNESS.try_with(|c| c.set(c.get().saturating_sub(1)));
    }
}

/// Called by the global allocator wrapper.
pub fn count_alloc(is_free: bool) {
    let _ = HANDLER_DEPTH.try_with(|d| {
        if d.get() > 0 && IN_HARNESS.try_with(|h| h.get()).unwrap_or(1) == 0 {
            let c = if is_free { &H_FREES } else { &H_ALLOCS };
            let _ = c.try_with(|c| c.set(c.get() + 1));
        }
    });
}

#[derive(Clone, Debug)]
pub struct Event {
    pub thr: usize,
    pub depth: usize,
    pub kind: Kind,
    pub name: String,
    pub loc: usize,
    pub ord: Ordering,
    pub fail: Ordering,
    pub a: u64,
    pub b: u64,
    pub old: u64,
    pub new: u64,
    pub ok: bool,
}

#[derive(Clone, Copy, Debug, PartialEq, Eq)]
enum Status {
    Spawned,
    Parked,
    Running,
    Done,
}

#[derive(Clone, Copy, Debug)]
enum Cmd {
    Go(u32),
    Deliver(c_int, u32),
    Abort,
}

struct VThread {
    status: Status,
    pending: Option<Op>,
    cmd: Option<Cmd>,
    depth: usize,
    panicked: Option<String>,
    steps: usize,
    /// The thread just executed a spin/yield hint and nobody else has stepped since: it waits
    /// for somebody else, so it is not scheduled again while another thread can step.
    yielded: bool,
}

#[derive(Default)]
struct State {
    epoch: u64,
    active: bool,
    threads: Vec<VThread>,
    log: Vec<Event>,
    mutex_holder: HashMap<usize, (usize, usize)>,
    abort_reason: Option<String>,
    body_deliveries: u32,
    /// Offer a delivery right after each shim operation too (before the non-atomic code that
    /// follows it), as long as the delivery budget lasts.
    post_points: bool,
    /// Locations whose operations are not scheduling points (nobody else ever touches them).
    quiet: std::collections::HashSet<usize>,
    deliver: Option<DeliverFn>,
    /// Safety net: snapshots held by read sections (thr, depth, ptr) and freed pointers, so that
    /// a schedule is stopped *before* the real code would touch freed memory.
    held: Vec<(usize, usize, u64)>,
    freed: std::collections::HashSet<u64>,
}

pub type DeliverFn = Arc<dyn Fn(c_int, u32) + Send + Sync + 'static>;

pub struct Sched {
    m: Mutex<State>,
    cv: Condvar,
}

fn sched() -> &'static Sched {
    static S: OnceLock<Sched> = OnceLock::new();
    S.get_or_init(|| Sched {
        m: Mutex::new(State::default()),
        cv: Condvar::new(),
    })
}

static HOOKS: Hooks = Hooks {
    before: hook_before,
    after: hook_after,
};

pub fn install() {
    verif::install(&HOOKS);
}

/// Events produced on the controller thread (set-up before a run, tear-down after it) while
/// controller logging is on. They carry thread index CTL_THREAD.
pub const CTL_THREAD: usize = 99;
static CTL_LOG: Mutex<Option<Vec<Event>>> = Mutex::new(None);

pub fn ctl_log_begin() {
    install();
    *CTL_LOG.lock().unwrap() = Some(Vec::new());
}

pub fn ctl_log_take() -> Vec<Event> {
    CTL_LOG.lock().unwrap().take().unwrap_or_default()
}

fn ctl_push(ev: Event) {
    if let Some(v) = CTL_LOG.lock().unwrap().as_mut() {
        v.push(ev);
    }
}

fn park_forever() -> ! {
    loop {
        std::thread::park();
    }
}

fn hook_before(op: &Op) -> u32 {
    let i = match VTID.with(|v| v.get()) {
        Some(i) => i,
        None => return 0,
    };
    let _hg = HarnessGuard::new();
    let s = sched();
    let mut st = s.m.lock().unwrap();
    let my_epoch = EPOCH.with(|e| e.get());
    if st.epoch != my_epoch {
        drop(st);
        park_forever();
    }
    if !st.active {
        return 0;
    }
    if op.loc != 0 && st.quiet.contains(&op.loc) {
        return 0;
    }
    loop {
        st.threads[i].status = Status::Parked;
        st.threads[i].pending = Some(*op);
        s.cv.notify_all();
        while st.epoch == my_epoch && st.threads[i].cmd.is_none() {
            st = s.cv.wait(st).unwrap();
        }
        if st.epoch != my_epoch {
            drop(st);
            park_forever();
        }
        match st.threads[i].cmd.take().unwrap() {
            Cmd::Go(d) => {
                st.threads[i].status = Status::Running;
                st.threads[i].pending = None;
                st.threads[i].steps += 1;
                return d;
            }
            Cmd::Deliver(sig, id) => {
                st.threads[i].status = Status::Running;
                drop(st);
                deliver_here(sig, id);
                st = s.m.lock().unwrap();
                continue;
            }
            Cmd::Abort => {
                drop(st);
                park_forever();
            }
        }
    }
}

/// Run one (simulated) delivery of `sig` on the calling virtual thread, as a nested frame.
pub fn deliver_here(sig: c_int, id: u32) {
    let _hg = HarnessGuard::new();
    let i = VTID.with(|v| v.get()).expect("deliver_here outside a virtual thread");
    let s = sched();
    let (depth, custom) = {
        let mut st = s.m.lock().unwrap();
        st.threads[i].depth += 1;
        let depth = st.threads[i].depth;
        push_ctl(&mut st, i, depth, "deliver_begin", sig as u64, id as u64);
        (depth, st.deliver.clone())
    };
    let saved = (H_ALLOCS.with(|c| c.replace(0)), H_FREES.with(|c| c.replace(0)));
    HANDLER_DEPTH.with(|d| d.set(d.get() + 1));
    let saved_guard = IN_HARNESS.with(|h| h.replace(0));
    if let Some(f) = custom {
        f(sig, id);
    } else {
        let mut info: libc::siginfo_t = unsafe { std::mem::zeroed() };
        info.si_signo = sig;
        info.si_code = 0; // SI_USER
        // si_pid / si_uid live right after the three leading ints (+ padding) on Linux.
        unsafe {
            let p = &mut info as *mut libc::siginfo_t as *mut i32;
            *p.add(4) = 1_000_000 + id as i32;
            *p.add(5) = id as i32;
        }
        let saved_info = EXPECTED_INFO.with(|c| c.replace(&mut info as *mut _ as usize));
        unsafe { verif::deliver(sig, &mut info, 0x5151 as *mut libc::c_void) };
        EXPECTED_INFO.with(|c| c.set(saved_info));
    }
    IN_HARNESS.with(|h| h.set(saved_guard));
    HANDLER_DEPTH.with(|d| d.set(d.get() - 1));
    let allocs = H_ALLOCS.with(|c| c.replace(saved.0));
    let frees = H_FREES.with(|c| c.replace(saved.1));
    let mut st = s.m.lock().unwrap();
    push_ctl(&mut st, i, depth, "deliver_end", sig as u64, id as u64);
    if let Some(last) = st.log.last_mut() {
        last.old = allocs;
        last.new = frees;
    }
    st.threads[i].depth -= 1;
}

/// Next delivery id (for deliveries started by thread bodies rather than the controller).
pub fn fresh_delivery_id() -> u32 {
    let mut st = sched().m.lock().unwrap();
    st.body_deliveries += 1;
    1000 + st.body_deliveries
}

fn push_ctl(st: &mut State, thr: usize, depth: usize, name: &str, a: u64, b: u64) {
    st.log.push(Event {
        thr,
        depth,
        kind: Kind::Event,
        name: name.to_string(),
        loc: 0,
        ord: Ordering::Relaxed,
        fail: Ordering::Relaxed,
        a,
        b,
        old: 0,
        new: 0,
        ok: true,
    });
}

fn hook_after(op: &Op, old: u64, new: u64, ok: bool) {
    let _hg = HarnessGuard::new();
    let i = match VTID.with(|v| v.get()) {
        Some(i) => i,
        None => {
            ctl_push(Event {
                thr: CTL_THREAD,
                depth: 0,
                kind: op.kind,
                name: op.name.to_string(),
                loc: op.loc,
                ord: op.ord,
                fail: op.fail,
                a: op.a,
                b: op.b,
                old,
                new,
                ok,
            });
            return;
        }
    };
    let s = sched();
    let mut st = s.m.lock().unwrap();
    if st.epoch != EPOCH.with(|e| e.get()) {
        drop(st);
        park_forever();
    }
    if !st.active {
        return;
    }
    let depth = st.threads[i].depth;
    match op.kind {
        Kind::MutexLock => {
            st.mutex_holder.insert(op.loc, (i, depth));
        }
        Kind::MutexUnlock => {
            st.mutex_holder.remove(&op.loc);
        }
        _ => {}
    }
    let mut abort: Option<&'static str> = None;
    if op.kind == Kind::Event {
        match op.name {
            "hl_open" => {
                if st.freed.contains(&op.a) {
                    abort = Some("open_of_freed_snapshot");
                }
                st.held.push((i, depth, op.a));
            }
            "hl_close" => {
                if let Some(p) = st
                    .held
                    .iter()
                    .rposition(|h| h.0 == i && h.1 == depth && h.2 == op.a)
                {
                    st.held.remove(p);
                }
            }
            "hl_free" => {
                if st.held.iter().any(|h| h.2 == op.a) {
                    abort = Some("free_while_held");
                }
                if st.freed.contains(&op.a) {
                    abort = Some("double_free");
                }
            }
            "hl_freed" => {
                st.freed.insert(op.a);
            }
            "hl_alloc" | "hl_init" => {
                st.freed.remove(&op.a);
            }
            _ => {}
        }
    }
    st.log.push(Event {
        thr: i,
        depth,
        kind: op.kind,
        name: op.name.to_string(),
        loc: op.loc,
        ord: op.ord,
        fail: op.fail,
        a: op.a,
        b: op.b,
        old,
        new,
        ok,
    });
    let post = st.post_points && op.kind != Kind::Event && op.kind != Kind::MutexUnlock;
    if post && abort.is_none() {
        drop(st);
        let post_op = Op {
            kind: Kind::Event,
            loc: 0,
            ord: Ordering::Relaxed,
            fail: Ordering::Relaxed,
            a: 0,
            b: 0,
            name: "post",
        };
        hook_before(&post_op);
        return;
    }
    if let Some(reason) = abort {
        st.abort_reason = Some(reason.to_string());
        st.threads[i].status = Status::Parked;
        st.threads[i].pending = None;
        s.cv.notify_all();
        drop(st);
        park_forever();
    }
}

/// Emit a harness-level event from inside a virtual thread (action bodies, call/return marks).
pub fn note(name: &str, a: u64, b: u64) {
    let _hg = HarnessGuard::new();
    let i = match VTID.with(|v| v.get()) {
        Some(i) => i,
        None => {
            ctl_push(Event {
                thr: CTL_THREAD,
                depth: 0,
                kind: Kind::Event,
                name: name.to_string(),
                loc: 0,
                ord: Ordering::Relaxed,
                fail: Ordering::Relaxed,
                a,
                b,
                old: 0,
                new: 0,
                ok: true,
            });
            return;
        }
    };
    let s = sched();
    let mut st = s.m.lock().unwrap();
    if st.epoch != EPOCH.with(|e| e.get()) {
        drop(st);
        park_forever();
    }
    if !st.active {
        return;
    }
    let depth = st.threads[i].depth;
    push_ctl(&mut st, i, depth, name, a, b);
}

/// Stop the current schedule from inside a virtual thread (a monitor saw something that would be
/// undefined behaviour if execution went on). The calling thread never returns.
pub fn abort_schedule(reason: &str) -> ! {
    let s = sched();
    {
        let mut st = s.m.lock().unwrap();
        st.abort_reason = Some(reason.to_string());
        if let Some(i) = VTID.with(|v| v.get()) {
            st.threads[i].status = Status::Parked;
            st.threads[i].pending = None;
        }
        s.cv.notify_all();
    }
    park_forever()
}

pub fn current_thread() -> Option<(usize, usize)> {
    let i = VTID.with(|v| v.get())?;
    let st = sched().m.lock().unwrap();
    Some((i, st.threads[i].depth))
}

#[derive(Clone, Debug, PartialEq, Eq)]
pub enum Choice {
    Step(usize),
    Spurious(usize),
    Deliver(usize, c_int),
}

/// The schedule of the run in progress, kept where a SIGABRT handler can reach it: the code under
/// test may abort the process (half_lock.rs: reader-count overflow guard) and that is data too.
static ABORT_LEN: AtomicUsize = AtomicUsize::new(0);
static ABORT_RUNS: AtomicUsize = AtomicUsize::new(0);
static mut ABORT_BUF: [u8; 32768] = [0; 32768];

fn abort_note_reset() {
    ABORT_LEN.store(0, Ordering::SeqCst);
    ABORT_RUNS.fetch_add(1, Ordering::SeqCst);
}

fn abort_note_push(code: &str) {
    let l = ABORT_LEN.load(Ordering::SeqCst);
    let b = code.as_bytes();
    if l + b.len() + 1 < 32768 {
        unsafe {
            let base = std::ptr::addr_of_mut!(ABORT_BUF) as *mut u8;
            std::ptr::copy_nonoverlapping(b.as_ptr(), base.add(l), b.len());
            *base.add(l + b.len()) = b' ';
        }
        ABORT_LEN.store(l + b.len() + 1, Ordering::SeqCst);
    }
}

extern "C" fn on_sigabrt(_: c_int) {
    // async-signal-safe: write(2) only
    unsafe {
        let head = b"\nLIBRARY-ABORT schedule=";
        libc::write(2, head.as_ptr() as *const libc::c_void, head.len());
        let base = std::ptr::addr_of!(ABORT_BUF) as *const u8;
        libc::write(2, base as *const libc::c_void, ABORT_LEN.load(Ordering::SeqCst));
        let mut num = [0u8; 24];
        let mut n = ABORT_RUNS.load(Ordering::SeqCst);
        let mut i = num.len();
        loop {
            i -= 1;
            num[i] = b'0' + (n % 10) as u8;
            n /= 10;
            if n == 0 {
                break;
            }
        }
        let mid = b"\nLIBRARY-ABORT run=";
        libc::write(2, mid.as_ptr() as *const libc::c_void, mid.len());
        libc::write(2, num[i..].as_ptr() as *const libc::c_void, num.len() - i);
        libc::write(2, b"\n".as_ptr() as *const libc::c_void, 1);
    }
}

/// Called once by the scheduler drivers.
pub fn install_abort_reporter() {
    unsafe {
        libc::signal(libc::SIGABRT, on_sigabrt as extern "C" fn(c_int) as usize);
    }
}

impl Choice {
    pub fn code(&self) -> String {
        match self {
            Choice::Step(t) => format!("s{}", t),
            Choice::Spurious(t) => format!("f{}", t),
            Choice::Deliver(t, sig) => format!("d{}:{}", t, sig),
        }
    }
    pub fn parse(s: &str) -> Option<Choice> {
        let (k, rest) = s.split_at(1);
        match k {
            "s" => rest.parse().ok().map(Choice::Step),
            "f" => rest.parse().ok().map(Choice::Spurious),
            "d" => {
                let mut it = rest.split(':');
                let t = it.next()?.parse().ok()?;
                let sig = it.next()?.parse().ok()?;
                Some(Choice::Deliver(t, sig))
            }
            _ => None,
        }
    }
}

/// What a strategy sees when choosing.
pub struct View<'a> {
    pub choices: &'a [Choice],
    /// Pending operation of each thread (None when done).
    pub pending: &'a [Option<Op>],
    pub depth: &'a [usize],
    pub last: Option<usize>,
    pub step: usize,
    /// Everything logged so far in this run.
    pub log: &'a [Event],
}

pub trait Strategy {
    fn choose(&mut self, view: &View) -> usize;
    /// A strategy may conclude that the run can never end (e.g. it found a fair cycle).
    fn verdict(&self) -> Option<String> {
        None
    }
}

#[derive(Clone)]
pub struct RunCfg {
    /// Signals that may be delivered by the controller.
    pub signals: Vec<c_int>,
    /// Total number of controller-injected deliveries.
    pub max_deliveries: usize,
    /// Maximum nesting of deliveries on one thread.
    pub max_nested: usize,
    /// Threads on which a delivery may be nested (indices).
    pub deliver_on: Vec<usize>,
    /// Handlers run to completion without interleaving other threads.
    pub handler_atomic: bool,
    /// Total number of forced spurious weak-CAS failures.
    pub max_spurious: usize,
    /// Maximum number of preemptions (switching away from an enabled thread).
    pub preemption_bound: Option<usize>,
    /// Hard cap on controller decisions (livelock guard).
    pub max_steps: usize,
    /// Deliveries only injected at points whose pending op is not the synthetic start.
    pub deliver_at_start: bool,
    /// How many consecutive steps spinning threads may take while nobody else can step.
    pub max_solo_spin: usize,
    /// Signals whose kernel disposition is watched: after every step the controller logs a
    /// `disp_lib` event when the library's dispatcher became the disposition; with
    /// `deliver_requires_lib` a delivery of such a signal is only offered once it is.
    pub watch: Vec<c_int>,
    pub deliver_requires_lib: bool,
    /// Called (once, on the controller thread) when no thread can step although not all are
    /// done; returning true means it changed something (e.g. closed an iterator so that a blocked
    /// consumer wakes) and scheduling should go on. The run is still reported as stuck.
    pub on_stuck: Option<Arc<dyn Fn() -> bool + Send + Sync + 'static>>,
    /// Addresses whose operations are logged but are no scheduling points.
    pub quiet: Vec<usize>,
    /// Also offer deliveries immediately after every shim operation of a thread (a signal
    /// landing before the non-atomic code that follows the operation).
    pub post_points: bool,
    /// What a delivery runs (default: the registry's real dispatcher).
    pub deliver: Option<DeliverFn>,
}

impl Default for RunCfg {
    fn default() -> Self {
        RunCfg {
            signals: vec![],
            max_deliveries: 0,
            max_nested: 1,
            deliver_on: vec![],
            handler_atomic: false,
            max_spurious: 0,
            preemption_bound: None,
            max_steps: 5000,
            deliver_at_start: true,
            max_solo_spin: 64,
            watch: vec![],
            deliver_requires_lib: false,
            on_stuck: None,
            quiet: vec![],
            post_points: false,
            deliver: None,
        }
    }
}

#[derive(Clone, Debug, PartialEq, Eq)]
pub enum Outcome {
    Done,
    Deadlock,
    /// Everybody was blocked at some point; the scenario's on_stuck callback released them and
    /// the run then completed (the description says who was blocked on what).
    Unstuck(String),
    /// A thread kept spinning although nobody else could step any more.
    Livelock,
    /// The strategy found a fair cycle: the same shared state and the same thread positions recur
    /// while every other thread keeps completing finite operations and the waiting thread never
    /// observes what it waits for.
    Lasso(String),
    StepLimit,
    Aborted(String),
}

pub struct RunResult {
    pub log: Vec<Event>,
    pub schedule: Vec<Choice>,
    pub outcome: Outcome,
    pub panics: Vec<(usize, String)>,
    /// Threads that were parked (not done) when the run ended, with their pending op.
    pub stuck: Vec<(usize, usize, Option<Op>)>,
}

pub fn disposition_is_lib(sig: c_int) -> bool {
    let mut old: libc::sigaction = unsafe { std::mem::zeroed() };
    if unsafe { libc::sigaction(sig, std::ptr::null(), &mut old) } != 0 {
        return false;
    }
    old.sa_sigaction == verif::handler_addr()
}

fn fd_readable(fd: c_int) -> bool {
    let mut p = libc::pollfd {
        fd,
        events: libc::POLLIN,
        revents: 0,
    };
    let r = unsafe { libc::poll(&mut p, 1, 0) };
    r > 0 && (p.revents & (libc::POLLIN | libc::POLLHUP | libc::POLLERR)) != 0
}

pub type Body = Box<dyn FnOnce() + Send + 'static>;

pub fn run(bodies: Vec<Body>, strategy: &mut dyn Strategy, cfg: &RunCfg) -> RunResult {
    abort_note_reset();
    install();
    let s = sched();
    let n = bodies.len();
    {
        let mut st = s.m.lock().unwrap();
        let epoch = st.epoch + 1;
        *st = State::default();
        st.epoch = epoch;
        st.active = true;
        st.deliver = cfg.deliver.clone();
        st.quiet = cfg.quiet.iter().copied().collect();
        st.post_points = cfg.post_points && cfg.max_deliveries > 0;
        for _ in 0..n {
            st.threads.push(VThread {
                status: Status::Spawned,
                pending: None,
                cmd: None,
                depth: 0,
                panicked: None,
                steps: 0,
                yielded: false,
            });
        }
    }
    let mut handles = Vec::new();
    let epoch = s.m.lock().unwrap().epoch;
    for (i, body) in bodies.into_iter().enumerate() {
        let h = std::thread::Builder::new()
            .name(format!("vt{}", i))
            .stack_size(512 * 1024)
            .spawn(move || {
                VTID.with(|v| v.set(Some(i)));
                EPOCH.with(|e| e.set(epoch));
                let start = Op {
                    kind: Kind::Event,
                    loc: 0,
                    ord: Ordering::Relaxed,
                    fail: Ordering::Relaxed,
                    a: 0,
                    b: 0,
                    name: "start",
                };
                hook_before(&start);
                let r = catch_unwind(AssertUnwindSafe(body));
                let s = sched();
                let mut st = s.m.lock().unwrap();
                if st.epoch != epoch {
                    drop(st);
                    park_forever();
                }
                if let Err(e) = r {
                    let msg = if let Some(m) = e.downcast_ref::<&str>() {
                        m.to_string()
                    } else if let Some(m) = e.downcast_ref::<String>() {
                        m.clone()
                    } else {
                        "panic".to_string()
                    };
                    // a panic that unwound out of a delivery leaves the thread's handler depth > 0
                    let msg = if st.threads[i].depth > 0 { format!("HANDLER: {}", msg) } else { msg };
                    st.threads[i].panicked = Some(msg);
                }
                st.threads[i].status = Status::Done;
                st.threads[i].pending = None;
                let depth = st.threads[i].depth;
                push_ctl(&mut st, i, depth, "thread_done", 0, 0);
                s.cv.notify_all();
                VTID.with(|v| v.set(None));
            })
            .unwrap();
        handles.push(h);
    }

    let mut schedule = Vec::new();
    let mut last: Option<usize> = None;
    let mut deliveries = 0usize;
    let mut spurious = 0usize;
    let mut preemptions = 0usize;
    let mut step = 0usize;
    let mut solo_spin = 0usize;
    let mut was_stuck = false;
    let mut stuck_desc = String::new();
    let mut is_lib: HashMap<c_int, bool> = HashMap::new();
    let outcome;
    let mut st = s.m.lock().unwrap();
    loop {
        // Wait until nobody runs.
        while st
            .threads
            .iter()
            .any(|t| matches!(t.status, Status::Spawned | Status::Running))
            && st.abort_reason.is_none()
        {
            st = s.cv.wait(st).unwrap();
        }
        if let Some(r) = st.abort_reason.clone() {
            outcome = Outcome::Aborted(r);
            break;
        }
        for sig in &cfg.watch {
            let now = disposition_is_lib(*sig);
            let before = is_lib.insert(*sig, now).unwrap_or(false);
            if now && !before {
                let (thr, depth) = match last {
                    Some(t) => (t, st.threads[t].depth),
                    None => (CTL_THREAD, 0),
                };
                push_ctl(&mut st, thr, depth, "disp_lib", *sig as u64, 0);
            }
        }
        if st.threads.iter().all(|t| t.status == Status::Done) {
            outcome = if was_stuck { Outcome::Unstuck(stuck_desc.clone()) } else { Outcome::Done };
            break;
        }
        if step >= cfg.max_steps {
            outcome = Outcome::StepLimit;
            break;
        }
        // Enabled steps.
        let in_handler: Option<usize> = if cfg.handler_atomic {
            st.threads.iter().position(|t| t.depth > 0 && t.status == Status::Parked)
        } else {
            None
        };
        let enabled = |st: &State, t: usize| -> bool {
            let th = &st.threads[t];
            if th.status != Status::Parked {
                return false;
            }
            match th.pending {
                Some(op) => match op.kind {
                    Kind::MutexLock => !st.mutex_holder.contains_key(&op.loc),
                    Kind::SyscallBlocking if op.name == "wait_lib" => {
                        disposition_is_lib(op.loc as c_int)
                    }
                    Kind::SyscallBlocking => fd_readable(op.loc as c_int),
                    _ => true,
                },
                None => false,
            }
        };
        let mut steps: Vec<usize> = Vec::new();
        if let Some(l) = last {
            if enabled(&st, l) {
                steps.push(l);
            }
        }
        for t in 0..n {
            if Some(t) != last && enabled(&st, t) {
                steps.push(t);
            }
        }
        if let Some(h) = in_handler {
            steps.retain(|t| *t == h);
        }
        // A thread parked right after one of its operations: only it goes on (or takes a
        // delivery there); this is not a preemption point for the others.
        let at_post: Option<usize> = st.threads.iter().position(|t| {
            t.status == Status::Parked && t.pending.map(|o| o.name == "post").unwrap_or(false)
        });
        if let Some(p) = at_post {
            steps.retain(|t| *t == p);
        }
        if steps.iter().any(|t| !st.threads[*t].yielded) {
            steps.retain(|t| !st.threads[*t].yielded);
            solo_spin = 0;
        } else if !steps.is_empty() {
            solo_spin += 1;
            if solo_spin > cfg.max_solo_spin {
                outcome = Outcome::Livelock;
                break;
            }
        }
        let mut choices: Vec<Choice> = Vec::new();
        let bound_hit = match cfg.preemption_bound {
            Some(b) => preemptions >= b,
            None => false,
        };
        let last_enabled = last.map(|l| steps.first() == Some(&l)).unwrap_or(false);
        for t in &steps {
            if bound_hit && last_enabled && Some(*t) != last {
                continue;
            }
            choices.push(Choice::Step(*t));
        }
        if spurious < cfg.max_spurious {
            for t in &steps {
                if bound_hit && last_enabled && Some(*t) != last {
                    continue;
                }
                if let Some(op) = st.threads[*t].pending {
                    if op.kind == Kind::CasWeak {
                        choices.push(Choice::Spurious(*t));
                    }
                }
            }
        }
        if deliveries < cfg.max_deliveries && in_handler.is_none() {
            for t in &cfg.deliver_on {
                if at_post.is_some() && at_post != Some(*t) {
                    continue;
                }
                let th = &st.threads[*t];
                if th.status == Status::Parked && th.depth < cfg.max_nested {
                    let at_start = th.pending.map(|o| o.name == "start").unwrap_or(false);
                    if at_start && !cfg.deliver_at_start {
                        continue;
                    }
                    if th.pending.is_none() {
                        continue;
                    }
                    for sig in &cfg.signals {
                        if cfg.deliver_requires_lib && !is_lib.get(sig).copied().unwrap_or(false) {
                            continue;
                        }
                        choices.push(Choice::Deliver(*t, *sig));
                    }
                }
            }
        }
        if !choices.iter().any(|c| !matches!(c, Choice::Deliver(..))) && steps.is_empty() {
            // Nothing can step. Deliveries alone could still run, but if no thread can ever
            // step again this is a deadlock of the threads; report it as such unless a
            // delivery is possible (then let the strategy decide).
            if choices.is_empty() {
                if !was_stuck {
                    was_stuck = true;
                    let desc: Vec<String> = st
                        .threads
                        .iter()
                        .enumerate()
                        .filter(|(_, t)| t.status == Status::Parked)
                        .map(|(i, t)| format!("{}:{}", i, t.pending.map(|o| o.name).unwrap_or("")))
                        .collect();
                    stuck_desc = desc.join(",");
                    push_ctl(&mut st, CTL_THREAD, 0, "stuck", 0, 0);
                    if let Some(last) = st.log.last_mut() {
                        last.name = format!("stuck:{}", stuck_desc);
                    }
                    if let Some(f) = cfg.on_stuck.clone() {
                        drop(st);
                        let go_on = f();
                        st = s.m.lock().unwrap();
                        if go_on {
                            continue;
                        }
                    }
                }
                outcome = Outcome::Deadlock;
                break;
            }
        }
        let pending: Vec<Option<Op>> = st.threads.iter().map(|t| t.pending).collect();
        let depth: Vec<usize> = st.threads.iter().map(|t| t.depth).collect();
        let idx = strategy.choose(&View {
            choices: &choices,
            pending: &pending,
            depth: &depth,
            last,
            step,
            log: &st.log,
        });
        if let Some(v) = strategy.verdict() {
            outcome = Outcome::Lasso(v);
            break;
        }
        if idx >= choices.len() {
            outcome = Outcome::Aborted(format!("strategy chose {} of {}", idx, choices.len()));
            break;
        }
        let c = choices[idx].clone();
        abort_note_push(&c.code());
        schedule.push(c.clone());
        step += 1;
        let hint = match &c {
            Choice::Step(t) => st.threads[*t]
                .pending
                .map(|o| matches!(o.kind, Kind::Yield | Kind::Spin))
                .unwrap_or(false),
            _ => false,
        };
        let actor = match &c {
            Choice::Step(t) | Choice::Spurious(t) | Choice::Deliver(t, _) => *t,
        };
        if hint {
            st.threads[actor].yielded = true;
        } else {
            for (u, th) in st.threads.iter_mut().enumerate() {
                if u != actor {
                    th.yielded = false;
                }
            }
            if matches!(c, Choice::Deliver(..)) {
                st.threads[actor].yielded = false;
            }
        }
        match c {
            Choice::Step(t) => {
                if last_enabled && Some(t) != last {
                    preemptions += 1;
                }
                st.threads[t].cmd = Some(Cmd::Go(0));
                st.threads[t].status = Status::Running;
                last = Some(t);
            }
            Choice::Spurious(t) => {
                if last_enabled && Some(t) != last {
                    preemptions += 1;
                }
                spurious += 1;
                st.threads[t].cmd = Some(Cmd::Go(DIRECTIVE_SPURIOUS));
                st.threads[t].status = Status::Running;
                last = Some(t);
            }
            Choice::Deliver(t, sig) => {
                deliveries += 1;
                if deliveries >= cfg.max_deliveries {
                    st.post_points = false;
                }
                st.threads[t].cmd = Some(Cmd::Deliver(sig, deliveries as u32));
                st.threads[t].status = Status::Running;
                last = Some(t);
            }
        }
        s.cv.notify_all();
    }
    // Wind down.
    st.active = false;
    st.deliver = None;
    let mut stuck = Vec::new();
    let mut all_done = true;
    for (i, t) in st.threads.iter_mut().enumerate() {
        if t.status != Status::Done {
            all_done = false;
            stuck.push((i, t.depth, t.pending));
            t.cmd = Some(Cmd::Abort);
        }
    }
    s.cv.notify_all();
    let log = std::mem::take(&mut st.log);
    let panics = st
        .threads
        .iter()
        .enumerate()
        .filter_map(|(i, t)| t.panicked.clone().map(|m| (i, m)))
        .collect();
    drop(st);
    if all_done {
        for h in handles {
            let _ = h.join();
        }
    } else {
        // Leak the stuck threads (they are parked forever); detach the handles.
        drop(handles);
    }
    RunResult {
        log,
        schedule,
        outcome,
        panics,
        stuck,
    }
}

/// Depth-first enumeration of all schedules by re-execution.
#[derive(Default)]
pub struct Dfs {
    stack: Vec<(usize, usize)>,
    pos: usize,
    pub nondeterminism: bool,
}

impl Dfs {
    pub fn new() -> Self {
        Dfs::default()
    }
    /// Move on to the next unexplored schedule; false when the tree is exhausted.
    pub fn advance(&mut self) -> bool {
        self.stack.truncate(self.pos.max(0));
        while let Some((c, n)) = self.stack.pop() {
            if c + 1 < n {
                self.stack.push((c + 1, n));
                self.pos = 0;
                return true;
            }
        }
        false
    }
    pub fn begin(&mut self) {
        self.pos = 0;
    }
}

impl Strategy for Dfs {
    fn choose(&mut self, view: &View) -> usize {
        let n = view.choices.len();
        if self.pos < self.stack.len() {
            let (c, m) = self.stack[self.pos];
            if m != n {
                self.nondeterminism = true;
                self.stack.truncate(self.pos);
                self.stack.push((0, n));
                self.pos += 1;
                return 0;
            }
            self.pos += 1;
            c
        } else {
            self.stack.push((0, n));
            self.pos += 1;
            0
        }
    }
}

/// Replays a recorded schedule; falls back to the first choice afterwards.
pub struct Replay {
    pub codes: Vec<String>,
    pub pos: usize,
    pub diverged: bool,
    pub diverged_at: usize,
}

impl Replay {
    pub fn new(codes: Vec<String>) -> Self {
        Replay {
            codes,
            pos: 0,
            diverged: false,
            diverged_at: 0,
        }
    }
}

impl Strategy for Replay {
    fn choose(&mut self, view: &View) -> usize {
        if self.pos < self.codes.len() {
            let want = &self.codes[self.pos];
            self.pos += 1;
            if let Some(i) = view.choices.iter().position(|c| &c.code() == want) {
                return i;
            }
            if !self.diverged {
                self.diverged_at = self.pos;
            }
            self.diverged = true;
        }
        0
    }
}

/// Directed strategy "all in flight": threads 0..n-2 are each run until they have completed
/// `holds` successful read-modify-writes (for the channel: the dequeue that takes an index) and are
/// parked there; then the last thread runs to completion; then the holders finish, in ascending or
/// descending order. One schedule; reaches states with many operations paused mid-way that a
/// preemption-bounded search never visits.
pub struct Hold {
    pub holds: usize,
    pub descending: bool,
    /// The thread that runs alone in the middle (the others hold).
    pub runner: usize,
}

impl Strategy for Hold {
    fn choose(&mut self, view: &View) -> usize {
        let n = view.pending.len();
        let runner = if self.runner < n { self.runner } else { n.saturating_sub(1) };
        let holders: Vec<usize> = (0..n).filter(|t| *t != runner).collect();
        let done_rmw = |t: usize| {
            view.log
                .iter()
                .filter(|e| e.thr == t && e.ok && matches!(e.kind, Kind::Cas | Kind::CasWeak | Kind::Swap | Kind::FetchAdd | Kind::FetchSub))
                .count()
        };
        let step_of = |t: usize| view.choices.iter().position(|c| matches!(c, Choice::Step(x) if *x == t));
        // phase 1: bring each holder to its holding point
        for &t in &holders {
            if view.pending[t].is_some() && done_rmw(t) < self.holds {
                if let Some(i) = step_of(t) {
                    return i;
                }
            }
        }
        // phase 2: the runner alone
        if n > 0 && view.pending[runner].is_some() {
            if let Some(i) = step_of(runner) {
                return i;
            }
        }
        // phase 3: the holders finish
        let order: Vec<usize> = if self.descending { holders.iter().rev().cloned().collect() } else { holders.clone() };
        for t in order {
            if let Some(i) = step_of(t) {
                return i;
            }
        }
        0
    }
}

/// Seeded random scheduler (xorshift), with a bias towards continuing the running thread.
pub struct Random {
    state: u64,
    pub switch_per_mille: u64,
}

impl Random {
    pub fn new(seed: u64) -> Self {
        Random {
            state: seed.wrapping_mul(0x9E3779B97F4A7C15) | 1,
            switch_per_mille: 300,
        }
    }
    pub fn next(&mut self) -> u64 {
        let mut x = self.state;
        x ^= x << 13;
        x ^= x >> 7;
        x ^= x << 17;
        self.state = x;
        x
    }
}

impl Strategy for Random {
    fn choose(&mut self, view: &View) -> usize {
        let n = view.choices.len();
        if n == 1 {
            return 0;
        }
        if self.next() % 1000 >= self.switch_per_mille {
            return 0;
        }
        (self.next() % n as u64) as usize
    }
}

pub fn ord_name(o: Ordering) -> &'static str {
    match o {
        Ordering::Relaxed => "Relaxed",
        Ordering::Release => "Release",
        Ordering::Acquire => "Acquire",
        Ordering::AcqRel => "AcqRel",
        Ordering::SeqCst => "SeqCst",
        _ => "Unknown",
    }
}

pub fn kind_name(k: Kind) -> &'static str {
    match k {
        Kind::Load => "load",
        Kind::Store => "store",
        Kind::Swap => "swap",
        Kind::FetchAdd => "fetch_add",
        Kind::FetchSub => "fetch_sub",
        Kind::Cas => "cas",
        Kind::CasWeak => "cas_weak",
        Kind::MutexLock => "lock",
        Kind::MutexUnlock => "unlock",
        Kind::Yield => "yield",
        Kind::Spin => "spin",
        Kind::Syscall => "syscall",
        Kind::SyscallBlocking => "syscall_blocking",
        Kind::Event => "event",
    }
}

pub type ArcBody = Arc<dyn Fn() + Send + Sync + 'static>;

/// Adversarial but fair schedule for C18: reader threads (indices 0..readers) take turns so that
/// at least one of them is inside a read section at every instant, each section is finite, and
/// the writer (index `readers`) runs one barrier iteration per turn. If the writer keeps spinning
/// through periods in which the shared state and all positions recur and it never loads a zero,
/// the execution can be repeated forever: a fair cycle in which the mutator never returns.
pub struct Chain {
    readers: usize,
    writers: usize,
    widx: usize,
    spun_in_turn: bool,
    phase: u8,
    turn: usize,
    hints_in_turn: usize,
    last_sig_at: usize,
    sigs: Vec<(String, bool)>,
    verdict: Option<String>,
    pub writer_hints: usize,
}

impl Chain {
    pub fn new(readers: usize) -> Self {
        Self::with_writers(readers, 1)
    }
    /// Writers are the threads `readers .. readers + writers`; each runs one barrier iteration per
    /// turn (a writer blocked on the writers' mutex is skipped).
    pub fn with_writers(readers: usize, writers: usize) -> Self {
        Chain {
            readers,
            writers,
            widx: 0,
            spun_in_turn: false,
            phase: 0,
            turn: 0,
            hints_in_turn: 0,
            last_sig_at: 0,
            sigs: Vec::new(),
            verdict: None,
            writer_hints: 0,
        }
    }
    fn inside(view: &View, t: usize) -> bool {
        view.pending[t].map(|o| o.kind == Kind::FetchSub).unwrap_or(false)
    }
    fn pick(view: &View, t: usize) -> Option<usize> {
        view.choices.iter().position(|c| *c == Choice::Step(t))
    }
    fn end_of_turn(&mut self, view: &View) {
        if self.spun_in_turn {
            // every spinning writer did one barrier iteration: take a signature
            let mut vals: std::collections::BTreeMap<usize, u64> = Default::default();
            let mut zero = false;
            for (k, ev) in view.log.iter().enumerate() {
                if ev.kind != Kind::Event && ev.loc != 0 {
                    vals.insert(ev.loc, ev.new);
                }
                if k >= self.last_sig_at && ev.thr >= self.readers && ev.kind == Kind::Load && ev.old == 0 {
                    zero = true;
                }
            }
            // addresses are stable within a run; pointers (data) change per store
            let pos: Vec<String> = view
                .pending
                .iter()
                .map(|p| p.map(|o| format!("{:?}@{:x}", o.kind, o.loc)).unwrap_or_default())
                .collect();
            let sig = format!("{:?}|{:?}|{}", vals, pos, self.turn % self.readers);
            self.last_sig_at = view.log.len();
            self.sigs.push((sig, zero));
            let n = self.sigs.len();
            let period = self.readers;
            if n >= 3 * period + 1 {
                let same = (1..=2 * period).all(|k| self.sigs[n - k].0 == self.sigs[n - k - period].0);
                let nozero = (1..=2 * period).all(|k| !self.sigs[n - k].1);
                if same && nozero {
                    self.verdict = Some(format!(
                        "the writer(s) spun through {} barrier iterations; the last {} turns repeat with period {} while no writer ever loaded a zero counter and every reader kept completing finite sections",
                        self.writer_hints, 2 * period, period
                    ));
                }
            }
        }
        self.turn += 1;
        self.phase = 0;
        self.widx = 0;
        self.hints_in_turn = 0;
        self.spun_in_turn = false;
    }
}

impl Strategy for Chain {
    fn choose(&mut self, view: &View) -> usize {
        // phases: 0 = let reader `turn` enter; 1 = let the other reader(s) leave; 2 = writers
        for _ in 0..(8 + 2 * self.writers) {
            match self.phase {
                0 => {
                    let a = self.turn % self.readers;
                    if view.pending[a].is_some() && !Self::inside(view, a) {
                        if let Some(i) = Self::pick(view, a) {
                            return i;
                        }
                    }
                    self.phase = 1;
                }
                1 => {
                    let a = self.turn % self.readers;
                    let other = (0..self.readers).find(|t| *t != a && Self::inside(view, *t));
                    if let Some(b) = other {
                        if let Some(i) = Self::pick(view, b) {
                            return i;
                        }
                    }
                    self.phase = 2;
                    self.hints_in_turn = 0;
                    self.widx = 0;
                }
                _ => {
                    if self.widx >= self.writers {
                        let all_done = (0..self.writers).all(|k| view.pending[self.readers + k].is_none());
                        self.end_of_turn(view);
                        if all_done {
                            return 0;
                        }
                        continue;
                    }
                    let w = self.readers + self.widx;
                    let at_hint = view.pending[w]
                        .map(|o| matches!(o.kind, Kind::Spin | Kind::Yield))
                        .unwrap_or(false);
                    let can = Self::pick(view, w);
                    // (after a hint the scheduler does not offer the spinning thread again until
                    // somebody else has stepped)
                    if self.hints_in_turn >= 1 && (at_hint || can.is_none()) {
                        // one barrier iteration of this writer done
                        self.widx += 1;
                        self.hints_in_turn = 0;
                        continue;
                    }
                    if let Some(i) = can {
                        if at_hint {
                            self.hints_in_turn += 1;
                            self.writer_hints += 1;
                            self.spun_in_turn = true;
                        }
                        return i;
                    }
                    // this writer is done or blocked (mutex): next one
                    self.widx += 1;
                    self.hints_in_turn = 0;
                }
            }
        }
        0
    }
    fn verdict(&self) -> Option<String> {
        self.verdict.clone()
    }
}
