//! Small-scope exploration of the real `low_level::channel::Channel`.

use std::collections::HashSet;
use std::fs::File;
use std::hash::{Hash, Hasher};
use std::io::{BufWriter, Write};
use std::sync::atomic::{AtomicU64, Ordering};
use std::sync::Arc;

use signal_hook::low_level::channel::Channel;
use signal_hook_registry::verif::Kind;

use crate::sched::{self, Body, Dfs, Event, Hold, Outcome, Random, Replay, RunCfg, RunResult, Strategy};
use crate::trace::{op_line, signature, signature_json, LocMap, Obj};
use crate::Args;

/// Payload with an observable destructor.
pub struct Tagged {
    pub id: u64,
}

impl Drop for Tagged {
    fn drop(&mut self) {
        sched::note("val_drop", self.id, 0);
    }
}

struct Scn {
    senders: usize,
    sends: usize,
    receivers: usize,
    recvs: usize,
    prefill: usize,
}

fn do_send(chan: &Channel<Tagged>, next: &AtomicU64) {
    let id = next.fetch_add(1, Ordering::SeqCst);
    sched::note("call_send", id, 0);
    chan.send(Tagged { id });
    sched::note("ret_send", id, 0);
}

fn do_recv(chan: &Channel<Tagged>) {
    sched::note("call_recv", 0, 0);
    let r = chan.recv();
    let id = r.as_ref().map(|t| t.id).unwrap_or(0);
    sched::note("ret_recv", id, 0);
    drop(r);
}

struct Built {
    chan: Arc<Channel<Tagged>>,
    bodies: Vec<Body>,
    locs: LocMap,
    next: Arc<AtomicU64>,
    pre: Vec<Event>,
}

fn build(scn: &Scn) -> Built {
    let chan = Arc::new(Channel::new());
    let mut locs = LocMap::default();
    let lay = chan.verif_layout();
    locs.add(lay[0], "empty");
    locs.add(lay[1], "full");
    // Prefill on the controller thread, logged as thread 100.
    let pre_next = AtomicU64::new(101);
    sched::ctl_log_begin();
    for _ in 0..scn.prefill {
        do_send(&chan, &pre_next);
    }
    let pre = sched::ctl_log_take();
    let next = Arc::new(AtomicU64::new(1));
    let mut bodies: Vec<Body> = Vec::new();
    for _ in 0..scn.senders {
        let chan = chan.clone();
        let next = next.clone();
        let n = scn.sends;
        bodies.push(Box::new(move || {
            for _ in 0..n {
                do_send(&chan, &next);
            }
        }));
    }
    for _ in 0..scn.receivers {
        let chan = chan.clone();
        let n = scn.recvs;
        bodies.push(Box::new(move || {
            for _ in 0..n {
                do_recv(&chan);
            }
        }));
    }
    Built {
        chan,
        bodies,
        locs,
        next,
        pre,
    }
}

fn lines_of(log: &[Event], locs: &LocMap, fine: &mut Vec<String>, abs: &mut Vec<String>) {
    // For every operation in progress: its own shim steps since any other frame last stepped.
    let mut solo: std::collections::HashMap<(usize, usize), i64> = std::collections::HashMap::new();
    for ev in log {
        let key = (ev.thr, ev.depth);
        if ev.kind != Kind::Event {
            for (k, v) in solo.iter_mut() {
                if *k == key {
                    *v += 1;
                } else {
                    *v = 0;
                }
            }
        } else if ev.name == "call_send" || ev.name == "call_recv" {
            solo.insert(key, 0);
        }
        let my_solo = if ev.name == "ret_send" || ev.name == "ret_recv" {
            solo.remove(&key).unwrap_or(0)
        } else {
            0
        };
        let t = if ev.thr == sched::CTL_THREAD { 100 } else { ev.thr as i64 + 1 };
        let d = ev.depth as i64;
        if ev.kind == Kind::Event {
            let base = |e: &str| Obj::new(e).int("t", t).int("d", d);
            let line = match ev.name.as_str() {
                "call_send" => Some(base("call_send").int("v", ev.a as i64).done()),
                "ret_send" => Some(base("ret_send").int("v", ev.a as i64).int("solo", my_solo).done()),
                "call_recv" => Some(base("call_recv").done()),
                "ret_recv" => Some(base("ret_recv").int("v", ev.a as i64).int("solo", my_solo).done()),
                "cell_write" => Some(base("cell_write").int("i", ev.a as i64).done()),
                "cell_take" => Some(base("cell_take").int("i", ev.a as i64).done()),
                "val_drop" => Some(base("drop").int("v", ev.a as i64).done()),
                "deliver_begin" => Some(base("deliver").done()),
                "deliver_end" => Some(base("return").done()),
                "thread_done" => Some(base("done").done()),
                _ => None,
            };
            if let Some(l) = line {
                fine.push(l.clone());
                abs.push(l);
            }
        } else {
            let role = locs.name(ev.loc);
            fine.push(op_line(ev, &role, &|v| v as i64));
        }
    }
}

fn normalise(b: &Built, res: &RunResult, post: &[Event]) -> (Vec<String>, Vec<String>) {
    let mut fine = Vec::new();
    let mut abs = Vec::new();
    lines_of(&b.pre, &b.locs, &mut fine, &mut abs);
    lines_of(&res.log, &b.locs, &mut fine, &mut abs);
    let mut tail = Vec::new();
    match &res.outcome {
        Outcome::Done => {}
        Outcome::Unstuck(_) | Outcome::Deadlock => tail.push(Obj::new("deadlock").int("t", 0).int("d", 0).int("hdepth", res.stuck.iter().map(|s| s.1 as i64).max().unwrap_or(0)).done()),
        Outcome::Lasso(why) => tail.push(
            Obj::new("livelock")
                .int("t", 0)
                .int("d", 0)
                .int("hdepth", res.stuck.iter().map(|s| s.1 as i64).max().unwrap_or(0))
                .str("why", why)
                .done(),
        ),
        Outcome::Livelock | Outcome::StepLimit => {
            tail.push(Obj::new("livelock").int("t", 0).int("d", 0).int("hdepth", res.stuck.iter().map(|s| s.1 as i64).max().unwrap_or(0)).done())
        }
        Outcome::Aborted(r) if r.starts_with("watchdog") => tail.push(
            Obj::new("livelock")
                .int("t", 0)
                .int("d", 0)
                .int("hdepth", res.stuck.iter().map(|s| s.1 as i64).max().unwrap_or(0))
                .str("why", r)
                .done(),
        ),
        Outcome::Aborted(r) => tail.push(Obj::new("aborted").int("t", 0).int("d", 0).str("why", r).done()),
    }
    for (i, m) in &res.panics {
        tail.push(Obj::new("panic").int("t", *i as i64 + 1).int("d", 0).str("msg", m).done());
    }
    fine.extend(tail.iter().cloned());
    abs.extend(tail);
    if res.outcome == Outcome::Done {
        let c = Obj::new("chan_drop").int("t", 100).int("d", 0).done();
        fine.push(c.clone());
        abs.push(c);
        lines_of(post, &b.locs, &mut fine, &mut abs);
    }
    (fine, abs)
}

pub fn solo_signatures() -> String {
    let one = |scn: Scn| {
        let b = build(&scn);
        let mut first = Dfs::new();
        let r = sched::run(b.bodies, &mut first, &RunCfg::default());
        signature(&r.log, &b.locs)
    };
    let s = one(Scn { senders: 1, sends: 1, receivers: 0, recvs: 0, prefill: 0 });
    let r = one(Scn { senders: 0, sends: 0, receivers: 1, recvs: 1, prefill: 1 });
    // Raw words after 1..5 prefilled sends: (empty, full) pairs, to extract SLOTS and BITS.
    let mut words = Vec::new();
    for k in 0..=6usize {
        let chan: Channel<u8> = Channel::new();
        for i in 0..k {
            chan.send(i as u8);
        }
        let lay = chan.verif_layout();
        let (e, f) = unsafe { (*(lay[0] as *const u16), *(lay[1] as *const u16)) };
        words.push(format!("[{},{}]", e, f));
    }
    format!(
        "{{\"send\":{},\"recv\":{},\"words\":[{}]}}",
        signature_json(&s),
        signature_json(&r),
        words.join(",")
    )
}

pub fn main(args: &Args) -> i32 {
    if args.flag("signature") {
        println!("{}", solo_signatures());
        return 0;
    }
    let scn = Scn {
        senders: args.num("senders", 1),
        sends: args.num("sends", 1),
        receivers: args.num("receivers", 1),
        recvs: args.num("recvs", 1),
        prefill: args.num("prefill", 0),
    };
    let max = args.num("max", 1_000_000);
    let nested = args.num("nested", 0);
    let out = args.get("out").unwrap_or("/verif/work/channel").to_string();
    let mode = args.get("mode").unwrap_or("dfs").to_string();
    let seed = args.num("seed", 1) as u64;
    let mut fine_w = BufWriter::new(File::create(format!("{}.fine.ndjson", out)).unwrap());
    let mut abs_w = BufWriter::new(File::create(format!("{}.abs.ndjson", out)).unwrap());
    let mut sched_w = BufWriter::new(File::create(format!("{}.schedules.txt", out)).unwrap());
    let mut dfs = Dfs::new();
    let mut rnd = Random::new(seed);
    let mut count = 0usize;
    let mut events = 0usize;
    let mut distinct: HashSet<u64> = HashSet::new();
    let mut distinct_fine: HashSet<u64> = HashSet::new();
    let mut anomalies: Vec<String> = Vec::new();
    let mut exhausted = false;
    let mut max_steps_per_op = 0usize;
    let fine_max = args.num("fine-max", usize::MAX);
    let replay_codes: Option<Vec<String>> = args
        .get("replay")
        .map(|s| s.split_whitespace().map(|x| x.to_string()).collect());
    loop {
        if count >= max {
            break;
        }
        let b = build(&scn);
        let n_threads = scn.senders + scn.receivers;
        let mut cfg = RunCfg::default();
        cfg.signals = vec![10];
        cfg.max_deliveries = nested;
        cfg.max_nested = args.num("depth", 1);
        cfg.deliver_on = (0..n_threads).collect();
        cfg.deliver_at_start = false;
        cfg.post_points = args.flag("post-points");
        cfg.handler_atomic = args.flag("handler-atomic");
        cfg.max_spurious = args.num("spurious", 0);
        cfg.preemption_bound = args.get("preempt").map(|s| s.parse().unwrap());
        let dchan = b.chan.clone();
        let dnext = b.next.clone();
        cfg.deliver = Some(Arc::new(move |_sig, _id| do_send(&dchan, &dnext)));
        let bodies = std::mem::take(&mut { b.bodies });
        let b = Built { bodies: Vec::new(), ..build_shell(b.chan, b.locs, b.next, b.pre) };
        let res = if let Some(codes) = &replay_codes {
            let mut rp = Replay::new(codes.clone());
            sched::run(bodies, &mut rp, &cfg)
        } else if mode == "random" {
            sched::run(bodies, &mut rnd as &mut dyn Strategy, &cfg)
        } else if mode == "hold" {
            // two directed schedules: holders finish in ascending, then in descending order
            let mut h = Hold { holds: args.num("holds", 1), descending: count == 1, runner: args.num("runner", usize::MAX) };
            sched::run(bodies, &mut h, &cfg)
        } else {
            dfs.begin();
            sched::run(bodies, &mut dfs, &cfg)
        };
        // Own steps of each operation (between call and return, same frame).
        max_steps_per_op = max_steps_per_op.max(own_steps(&res.log));
        // Tear the channel down on the controller thread and record what is dropped.
        let mut post = Vec::new();
        let Built { chan, locs, next, pre, .. } = b;
        drop(cfg);
        let b2;
        if res.outcome == Outcome::Done {
            sched::ctl_log_begin();
            match Arc::try_unwrap(chan) {
                Ok(c) => {
                    drop(c);
                    post = sched::ctl_log_take();
                    b2 = Built { chan: Arc::new(Channel::new()), bodies: Vec::new(), locs, next, pre };
                }
                Err(c) => {
                    let _ = sched::ctl_log_take();
                    b2 = Built { chan: c, bodies: Vec::new(), locs, next, pre };
                }
            }
        } else {
            b2 = Built { chan, bodies: Vec::new(), locs, next, pre };
        }
        let (fine, abs) = normalise(&b2, &res, &post);
        let codes: Vec<String> = res.schedule.iter().map(|c| c.code()).collect();
        let reset = Obj::new("reset").int("t", 0).int("d", 0).int("n", count as i64).done();
        let mut h = std::collections::hash_map::DefaultHasher::new();
        fine.hash(&mut h);
        if distinct_fine.insert(h.finish()) && distinct_fine.len() <= fine_max {
            writeln!(fine_w, "{}", reset).unwrap();
            for l in &fine {
                writeln!(fine_w, "{}", l).unwrap();
            }
        }
        let mut h = std::collections::hash_map::DefaultHasher::new();
        abs.hash(&mut h);
        if distinct.insert(h.finish()) {
            writeln!(abs_w, "{}", reset).unwrap();
            for l in &abs {
                writeln!(abs_w, "{}", l).unwrap();
            }
        }
        writeln!(sched_w, "{}", codes.join(" ")).unwrap();
        events += fine.len();
        if res.outcome != Outcome::Done || !res.panics.is_empty() {
            if anomalies.len() < 5 {
                anomalies.push(format!(
                    "{{\"n\":{},\"outcome\":\"{}\",\"panics\":{},\"schedule\":\"{}\"}}",
                    count,
                    format!("{:?}", res.outcome).replace('"', "'"),
                    res.panics.len(),
                    codes.join(" ")
                ));
            }
            if res.outcome != Outcome::Done && anomalies.len() >= 3 {
                count += 1;
                break;
            }
        }
        count += 1;
        if replay_codes.is_some() {
            break;
        }
        if mode == "dfs" && !dfs.advance() {
            exhausted = true;
            break;
        }
        if mode == "hold" && count >= 2 {
            exhausted = true;
            break;
        }
    }
    let end = Obj::new("reset").int("t", 0).int("d", 0).int("n", -1).done();
    writeln!(fine_w, "{}", end).unwrap();
    writeln!(abs_w, "{}", end).unwrap();
    fine_w.flush().unwrap();
    abs_w.flush().unwrap();
    sched_w.flush().unwrap();
    println!(
        "{{\"schedules\":{},\"events\":{},\"distinct_abs_traces\":{},\"distinct_fine_traces\":{},\"exhausted\":{},\"nondeterminism\":{},\"max_own_steps_per_op\":{},\"anomalies\":[{}]}}",
        count,
        events,
        distinct.len(),
        distinct_fine.len(),
        exhausted,
        dfs.nondeterminism,
        max_steps_per_op,
        anomalies.join(",")
    );
    0
}

fn build_shell(
    chan: Arc<Channel<Tagged>>,
    locs: LocMap,
    next: Arc<AtomicU64>,
    pre: Vec<Event>,
) -> Built {
    Built {
        chan,
        bodies: Vec::new(),
        locs,
        next,
        pre,
    }
}

/// Largest number of shim operations one send/recv performed itself (nested frames excluded).
fn own_steps(log: &[Event]) -> usize {
    use std::collections::HashMap;
    let mut cur: HashMap<(usize, usize), usize> = HashMap::new();
    let mut best = 0;
    for ev in log {
        let key = (ev.thr, ev.depth);
        if ev.kind == Kind::Event {
            match ev.name.as_str() {
                "call_send" | "call_recv" => {
                    cur.insert(key, 0);
                }
                "ret_send" | "ret_recv" => {
                    if let Some(n) = cur.remove(&key) {
                        best = best.max(n);
                    }
                }
                _ => {}
            }
        } else if let Some(n) = cur.get_mut(&key) {
            *n += 1;
        }
    }
    best
}
