----------------------------- MODULE SignalsOps -----------------------------
(***************************************************************************)
(* C12: a Signals / SignalsInfo instance through histories of              *)
(*   <<"A", n>> add_signal(n)    <<"R", n>> raise(n) + pending()           *)
(*   <<"H", 0>> / <<"h", 0>> clone / drop a handle    <<"X", 0>> drop the  *)
(* instance,  <<"N", n>> construct a second instance from <<SIGUSR2, n>>.  *)
(* The instance starts watching SIGUSR1 (10); an independent               *)
(* witness action on SIGUSR1 shows what the registry still delivers.       *)
(* Anchors: backend.rs:192-204 (add_signal), :64-71 (Drop unregisters      *)
(* every recorded id), :263-281 (constructor).                             *)
(***************************************************************************)
EXTENDS Kernel, Sequences

AddClass(n) == IF n < 0 \/ n >= 128 \/ n \in Forbidden THEN "panic"
               ELSE IF n \in Catchable THEN "ok" ELSE "err"

\* Expected observation for every op that reports, given the watched set before it.
RECURSIVE Expect(_, _, _)
Expect(ops, watched, alive) ==
    IF ops = << >> THEN << >>
    ELSE LET o == Head(ops)
             k == o[1]
             n == o[2] IN
         CASE k = "A" ->
                <<<<"A", n, IF alive THEN AddClass(n) ELSE "ok", << >>, 0>>>> \o
                Expect(Tail(ops), IF alive /\ AddClass(n) = "ok" THEN watched \cup {n} ELSE watched, alive)
           [] k = "R" ->
                <<<<"R", n, "-", IF alive /\ n \in watched THEN <<n>> ELSE << >>,
                   IF n = 10 THEN 1 ELSE 0>>>> \o Expect(Tail(ops), watched, alive)
           [] k = "X" -> <<<<"X", 0, "ok", << >>, 1>>>> \o Expect(Tail(ops), {}, FALSE)
           \* a second instance built from <<SIGUSR2, n>>: the constructor's verdict is that of
           \* add_signal(n); the first instance is not affected
           [] k = "N" -> <<<<"N", n, AddClass(n), << >>, 0>>>> \o Expect(Tail(ops), watched, alive)
           [] OTHER -> Expect(Tail(ops), watched, alive)
=============================================================================
