---------------------------- MODULE DeliveryProof ----------------------------
(***************************************************************************)
(* C12: "re-adding a watched signal is a no-op" - an instance never holds   *)
(* two registrations for one signal - machine-checked by TLAPS for ANY      *)
(* number of threads calling add_signal concurrently (through any number of *)
(* handle clones), any signals, any number of calls, including calls that   *)
(* are refused while the id table's lock is held (the documented panic /    *)
(* error: the lock is poisoned and released, later callers ignore the       *)
(* poison).  Steps as in Delivery.tla with AddAtomic = TRUE, which is what  *)
(* the solo signature of add_signal shows (one lock / unlock pair of the    *)
(* table around all registry operations):                                   *)
(*   A_Lock   lock the table        A_Check  look the signal up / refuse    *)
(*   A_Register  register an action with the registry (fresh id)            *)
(*   A_Record    record the id, unlock                                      *)
(***************************************************************************)
EXTENDS Naturals, TLAPS

CONSTANTS Threads, Sigs, NoOne
ASSUME NoOneNotThread == NoOne \notin Threads

VARIABLES pc, cur, held, table, registry, nextId, lockedBy

vars == <<pc, cur, held, table, registry, nextId, lockedBy>>

Init ==
    /\ pc = [t \in Threads |-> "idle"]
    /\ cur \in [Threads -> Sigs] /\ held = [t \in Threads |-> 0]
    /\ table = [s \in Sigs |-> 0] /\ registry = {} /\ nextId = 1
    /\ lockedBy = NoOne

Call(t, s) ==
    /\ pc[t] = "idle"
    /\ cur' = [cur EXCEPT ![t] = s]
    /\ pc' = [pc EXCEPT ![t] = "a_lock"]
    /\ UNCHANGED <<held, table, registry, nextId, lockedBy>>

A_Lock(t) ==
    /\ pc[t] = "a_lock" /\ lockedBy = NoOne
    /\ lockedBy' = t
    /\ pc' = [pc EXCEPT ![t] = "a_check"]
    /\ UNCHANGED <<cur, held, table, registry, nextId>>

\* refused (panic / error, lock released), already watched (no-op), or go on to register
A_Check(t) ==
    /\ pc[t] = "a_check"
    /\ \/ /\ pc' = [pc EXCEPT ![t] = "idle"] /\ lockedBy' = NoOne          \* refused
          /\ UNCHANGED <<cur, held, table, registry, nextId>>
       \/ /\ table[cur[t]] # 0
          /\ pc' = [pc EXCEPT ![t] = "idle"] /\ lockedBy' = NoOne
          /\ UNCHANGED <<cur, held, table, registry, nextId>>
       \/ /\ table[cur[t]] = 0
          /\ pc' = [pc EXCEPT ![t] = "a_register"]
          /\ UNCHANGED <<cur, held, table, registry, nextId, lockedBy>>

A_Register(t) ==
    /\ pc[t] = "a_register"
    /\ registry' = registry \cup {<<cur[t], nextId>>}
    /\ held' = [held EXCEPT ![t] = nextId]
    /\ nextId' = nextId + 1
    /\ pc' = [pc EXCEPT ![t] = "a_record"]
    /\ UNCHANGED <<cur, table, lockedBy>>

A_Record(t) ==
    /\ pc[t] = "a_record"
    /\ table' = [table EXCEPT ![cur[t]] = held[t]]
    /\ lockedBy' = NoOne
    /\ pc' = [pc EXCEPT ![t] = "idle"]
    /\ UNCHANGED <<cur, held, registry, nextId>>

Next == \E t \in Threads :
          (\E s \in Sigs : Call(t, s)) \/ A_Lock(t) \/ A_Check(t) \/ A_Register(t) \/ A_Record(t)
Spec == Init /\ [][Next]_vars

NoDoubleRegistration ==
    \A e1, e2 \in registry : e1[1] = e2[1] => e1[2] = e2[2]

TypeOK ==
    /\ pc \in [Threads -> {"idle", "a_lock", "a_check", "a_register", "a_record"}]
    /\ cur \in [Threads -> Sigs] /\ held \in [Threads -> Nat]
    /\ table \in [Sigs -> Nat] /\ registry \in SUBSET (Sigs \X Nat)
    /\ nextId \in Nat /\ nextId > 0
    /\ lockedBy \in Threads \cup {NoOne}

InCritical(t) == pc[t] \in {"a_check", "a_register", "a_record"}

LockInv == \A t \in Threads : InCritical(t) <=> lockedBy = t

\* every registration of the instance is the one the table names - or the one its holder, who still
\* has the lock, is about to record; ids are fresh
RegInv ==
    /\ \A e \in registry : e[2] < nextId /\ e[2] > 0
    /\ \A e \in registry :
          \/ table[e[1]] = e[2]
          \/ \E t \in Threads : pc[t] = "a_record" /\ cur[t] = e[1] /\ held[t] = e[2]
    /\ \A t \in Threads : pc[t] \in {"a_register", "a_record"} => table[cur[t]] = 0
    /\ \A t \in Threads : pc[t] = "a_register" => \A e \in registry : e[1] # cur[t]
    /\ \A t \in Threads : pc[t] = "a_record" =>
          /\ <<cur[t], held[t]>> \in registry
          /\ \A e \in registry : e[1] = cur[t] => e[2] = held[t]
    /\ \A s \in Sigs : table[s] # 0 => \A e \in registry : e[1] = s => e[2] = table[s]

IndInv == TypeOK /\ LockInv /\ RegInv

THEOREM InitInv == Init => IndInv
  BY NoOneNotThread DEF Init, IndInv, TypeOK, LockInv, RegInv, InCritical

THEOREM InvSafe == IndInv => NoDoubleRegistration
  BY DEF IndInv, TypeOK, RegInv, NoDoubleRegistration

THEOREM Step == IndInv /\ [Next]_vars => IndInv'
<1> SUFFICES ASSUME IndInv, [Next]_vars PROVE IndInv'
  OBVIOUS
<1> USE NoOneNotThread DEF IndInv, TypeOK, LockInv, RegInv, InCritical
<1>1. ASSUME NEW t \in Threads, NEW s \in Sigs, Call(t, s) PROVE IndInv'
  BY <1>1 DEF Call
<1>2. ASSUME NEW t \in Threads, A_Lock(t) PROVE IndInv'
  BY <1>2 DEF A_Lock
<1>3. ASSUME NEW t \in Threads, A_Check(t) PROVE IndInv'
  BY <1>3 DEF A_Check
<1>4. ASSUME NEW t \in Threads, A_Register(t) PROVE IndInv'
  BY <1>4 DEF A_Register
<1>5. ASSUME NEW t \in Threads, A_Record(t) PROVE IndInv'
  BY <1>5 DEF A_Record
<1>6. CASE UNCHANGED vars
  BY <1>6 DEF vars
<1> QED
  BY <1>1, <1>2, <1>3, <1>4, <1>5, <1>6 DEF Next

THEOREM Safety == Spec => []NoDoubleRegistration
<1>1. Spec => []IndInv
  BY InitInv, Step, PTL DEF Spec
<1> QED
  BY <1>1, InvSafe, PTL
=============================================================================
