------------------------- MODULE TraceChannelProgress -------------------------
(***************************************************************************)
(* C08 monitor for real executions of Channel<T>: every send/recv returns  *)
(* within StepBound own steps counted from the last step of anybody else   *)
(* (`solo`, computed by the harness from the scheduler's total order),     *)
(* nobody panics, and no explored schedule ends with an operation stuck    *)
(* (deadlock) or spinning without anybody else able to help (livelock).    *)
(* Like TraceChannelCells this monitor accepts every event, so a run the   *)
(* linearisability oracle rejected early is still examined.                *)
(***************************************************************************)
EXTENDS Naturals, Sequences, TLC, Json, IOUtils

CONSTANT StepBound

Rec == ndJsonDeserialize(IOEnv.TRACE)
VARIABLES l, open, viol
pvars == <<l, open, viol>>
R == Rec[l]
Flg(c, n) == IF c THEN {n} ELSE {}

PInit == l = 1 /\ open = 0 /\ viol = {}

PStep ==
    /\ l <= Len(Rec) /\ l' = l + 1
    /\ open' = CASE R.e \in {"call_send", "call_recv"} -> open + 1
                 [] R.e \in {"ret_send", "ret_recv"} /\ open > 0 -> open - 1
                 [] R.e = "reset" -> 0
                 [] OTHER -> open
    /\ viol' = viol
         \cup Flg(R.e = "panic", "operation_panicked")
         \cup Flg(R.e = "deadlock", "operation_blocked")
         \cup Flg(R.e = "livelock", "operation_waits_for_another_operation")
         \cup Flg(R.e \in {"ret_send", "ret_recv"} /\ R.solo > StepBound, "too_many_own_steps")

TraceSpec == PInit /\ [][PStep]_pvars
TraceAccepted ==
    LET d == TLCGet("stats").diameter IN
    IF d - 1 = Len(Rec) THEN TRUE ELSE Print(<<"TRACE_REJECTED", d, Rec[d]>>, FALSE)
V_C08 == viol = {}
=============================================================================
