------------------------------ MODULE Channel ------------------------------
(***************************************************************************)
(* Fine-grained model of src/low_level/channel.rs: one action per atomic   *)
(* operation, the two queue words bit-for-bit (BITS bits per position,     *)
(* position 0 lowest), payload cells as non-atomic cells of Mem.tla.       *)
(*                                                                         *)
(*   dequeue(q)  channel.rs:71-85    Q_Load (Relaxed :72), Deq_Cas (:80)   *)
(*   enqueue(q)  channel.rs:57-69    Q_Load (Relaxed :58), Enq_Cas (:64)   *)
(*   send        :136-141  dequeue(empty) ; cell := Some(v) ; enqueue(full)*)
(*   recv        :146-154  dequeue(full) ; cell.take() ; enqueue(empty)    *)
(*                                                                         *)
(* Frames: every thread has a stack; Deliver(t) pushes a send frame on t   *)
(* at any boundary (a signal handler that sends while the thread is inside *)
(* send or recv).                                                          *)
(*                                                                         *)
(* Parameters extracted from the code: the four orderings of the CASes,    *)
(* the ordering of the initial loads, SLOTS and BITS.                      *)
(***************************************************************************)
EXTENDS Naturals, Sequences, FiniteSets, TLC

CONSTANTS Senders, Receivers,    \* disjoint sets of thread ids (integers)
          Sends, Recvs,          \* operations per sender / receiver thread
          Prefill,               \* values already in the channel at the start
          DeliverOn, MaxNested, MaxDeliveries,
          SLOTS, BITS,
          MaxSpurious,           \* total spurious weak-CAS failures
          StaleFail,             \* may a failed CAS return a stale value (TRUE under C11)
          \* orderings per call site (send: dequeue(empty) then enqueue(full); recv: dequeue(full)
          \* then enqueue(empty)): the first load, the CAS on success, the CAS on failure
          OrdSDeqLoad, OrdSDeqOk, OrdSDeqFail, OrdSEnqLoad, OrdSEnqOk, OrdSEnqFail,
          OrdRDeqLoad, OrdRDeqOk, OrdRDeqFail, OrdREnqLoad, OrdREnqOk, OrdREnqFail,
          Freeze                 \* TRUE: explore freeze mode (C08 step bound)

Threads == Senders \cup Receivers

EMPTYQ == 1
FULLQ == 2
CellOf(i) == 10 + i
Locs == {EMPTYQ, FULLQ}
Cells == {CellOf(i) : i \in 1..SLOTS}

RECURSIVE Pow(_, _)
Pow(b, e) == IF e = 0 THEN 1 ELSE b * Pow(b, e - 1)
Radix == Pow(2, BITS)

\* get / set of channel.rs:47-55 on integers
Get(n, idx) == (n \div Pow(Radix, idx)) % Radix
Set(n, idx, v) == n - Get(n, idx) * Pow(Radix, idx) + v * Pow(Radix, idx)

RECURSIVE PackFrom(_, _)
PackFrom(s, k) == IF k > Len(s) THEN 0 ELSE s[k] * Pow(Radix, k - 1) + PackFrom(s, k + 1)
Pack(s) == PackFrom(s, 1)

\* Initial contents: Prefill values (ids 101, 102, ...) sit in slots 1..Prefill.
InitFull == Pack([k \in 1..Prefill |-> k])
InitEmpty == Pack([k \in 1..(SLOTS - Prefill) |-> Prefill + k])
InitVal(l) == IF l = EMPTYQ THEN InitEmpty ELSE InitFull

VARIABLES hist, tv, scv, cver, race,   \* Mem
          stack, todo,
          cell,        \* slot index -> 0 (None) | value id
          nextVal,     \* next value id to send
          sent,        \* values in the order their enqueue into `full` took effect
          got,         \* values in the order their dequeue from `full` took effect
          fate,        \* value id -> "none" | "flight" | "cell" | "recv" | "dropped"
          ndeliv, nspur,
          frozen, fsteps, fmark,
          bad

M == INSTANCE Mem WITH MThreads <- Threads

vars == <<hist, tv, scv, cver, race, stack, todo, cell, nextVal, sent, got, fate, ndeliv,
          nspur, frozen, fsteps, fmark, bad>>

MaxVals == Cardinality(Senders) * Sends + MaxDeliveries
ValIds == (1..MaxVals) \cup {100 + k : k \in 1..Prefill}

Idle == [kind |-> "idle", pc |-> "done", cur |-> 0, idx |-> 0, val |-> 0]
SFrame == [Idle EXCEPT !.kind = "S", !.pc = "s_ld"]
RFrame == [Idle EXCEPT !.kind = "R", !.pc = "r_ld"]
First(t) == IF t \in Senders THEN SFrame ELSE RFrame

Top(t) == stack[t][Len(stack[t])]
SetTop(t, f) == stack' = [stack EXCEPT ![t] = [@ EXCEPT ![Len(@)] = f]]

Init ==
    /\ M!MemInit
    /\ stack = [t \in Threads |-> << First(t) >>]
    /\ todo = [t \in Threads |-> (IF t \in Senders THEN Sends ELSE Recvs) - 1]
    /\ cell = [i \in 1..SLOTS |-> IF i <= Prefill THEN 100 + i ELSE 0]
    /\ nextVal = 1
    /\ sent = [k \in 1..Prefill |-> 100 + k]
    /\ got = << >>
    /\ fate = [v \in ValIds |-> IF v > 100 THEN "cell" ELSE "none"]
    /\ ndeliv = 0
    /\ nspur = 0
    /\ frozen = 0
    /\ fsteps = 0
    /\ fmark = <<0, 0>>
    /\ bad = {}

Finish(t) ==
    IF Len(stack[t]) > 1
    THEN /\ stack' = [stack EXCEPT ![t] = SubSeq(@, 1, Len(@) - 1)]
         /\ UNCHANGED todo
    ELSE IF todo[t] > 0
         THEN /\ stack' = [stack EXCEPT ![t] = << First(t) >>]
              /\ todo' = [todo EXCEPT ![t] = @ - 1]
         ELSE /\ stack' = [stack EXCEPT ![t] = << Idle >>]
              /\ UNCHANGED todo

\* First position of the word holding 0 (SLOTS when there is none).
RECURSIVE FirstZero(_, _)
FirstZero(n, i) == IF i >= SLOTS THEN SLOTS ELSE IF Get(n, i) = 0 THEN i ELSE FirstZero(n, i + 1)

Rest == <<cell, nextVal, sent, got, fate, ndeliv, frozen, bad>>

----------------------------------------------------------------------------
\* Freeze-mode bookkeeping shared by every step of the code: in freeze mode only the frozen thread
\* steps, and its own steps are counted (S_Start is bookkeeping, not a step of the code).
IsStart(t) == Top(t).pc = "s_ld" /\ Top(t).val = 0
FrozenDone ==
    /\ frozen # 0
    /\ \/ Len(stack[frozen]) < fmark[1]
       \/ /\ Len(stack[frozen]) = fmark[1]
          /\ (todo[frozen] < fmark[2] \/ Top(frozen).kind = "idle" \/ Top(frozen).pc = "panicked")
Fr(t) ==
    /\ frozen \in {0, t} /\ ~FrozenDone
    /\ fsteps' = IF frozen = t /\ ~IsStart(t) THEN fsteps + 1 ELSE fsteps
    /\ UNCHANGED fmark

(* The first load of a dequeue / enqueue (Relaxed in the code). *)
Q_Load(t, pcFrom, q, pcTo) ==
    LET f == Top(t)
        ord == CASE pcFrom = "s_ld" -> OrdSDeqLoad [] pcFrom = "s_ld2" -> OrdSEnqLoad
                 [] pcFrom = "r_ld" -> OrdRDeqLoad [] OTHER -> OrdREnqLoad IN
    /\ Fr(t)
    /\ f.pc = pcFrom
    /\ \E ts \in M!ReadTs(t, q, ord) :
         /\ M!MRead(t, q, ord, ts)
         /\ SetTop(t, [f EXCEPT !.cur = M!ValAt(q, ts), !.pc = pcTo])
    /\ UNCHANGED <<todo, cell, nextVal, sent, got, fate, ndeliv, nspur, frozen, bad>>

\* A failing compare_exchange_weak on q: reads some visible value (the latest one when
\* StaleFail is off); if that value equals the expected one the failure is spurious.
CasFail(t, q, ordFail) ==
    LET f == Top(t) IN
    \E ts \in M!ReadTs(t, q, ordFail) :
        /\ StaleFail \/ ts = Len(hist[q])
        /\ IF M!ValAt(q, ts) = f.cur
           THEN nspur < MaxSpurious /\ nspur' = nspur + 1
           ELSE UNCHANGED nspur
        /\ M!MRead(t, q, ordFail, ts)
        /\ SetTop(t, [f EXCEPT !.cur = M!ValAt(q, ts)])

----------------------------------------------------------------------------
(* send *)

\* The head of the loaded `empty` word decides: 0 = no free slot, the value is dropped.
S_Full(t) ==
    LET f == Top(t) IN
    /\ Fr(t)
    /\ f.pc = "s_deq" /\ f.cur % Radix = 0
    /\ fate' = [fate EXCEPT ![f.val] = "dropped"]
    /\ bad' = bad \cup (IF fate[f.val] # "flight" THEN {"double_drop"} ELSE {})
    /\ Finish(t)
    /\ UNCHANGED <<hist, tv, scv, cver, race, cell, nextVal, sent, got, ndeliv, nspur, frozen>>

S_Start(t) ==
    LET f == Top(t) IN
    /\ Fr(t)
    /\ f.pc = "s_ld" /\ f.val = 0
    /\ SetTop(t, [f EXCEPT !.val = nextVal])
    /\ nextVal' = nextVal + 1
    /\ fate' = [fate EXCEPT ![nextVal] = "flight"]
    /\ UNCHANGED <<hist, tv, scv, cver, race, todo, cell, sent, got, ndeliv, nspur, frozen, bad>>

S_DeqOk(t) ==
    LET f == Top(t) IN
    /\ Fr(t)
    /\ f.pc = "s_deq" /\ f.cur % Radix # 0
    /\ M!Latest(EMPTYQ) = f.cur
    /\ M!MRmw(t, EMPTYQ, OrdSDeqOk, f.cur \div Radix)
    /\ SetTop(t, [f EXCEPT !.idx = f.cur % Radix, !.pc = "s_write"])
    /\ UNCHANGED <<todo, cell, nextVal, sent, got, fate, ndeliv, nspur, frozen, bad>>

S_DeqFail(t) ==
    /\ Fr(t)
    /\ Top(t).pc = "s_deq" /\ Top(t).cur % Radix # 0
    /\ CasFail(t, EMPTYQ, OrdSDeqFail)
    /\ UNCHANGED <<todo, cell, nextVal, sent, got, fate, ndeliv, frozen, bad>>

S_Write(t) ==
    LET f == Top(t) IN
    /\ Fr(t)
    /\ f.pc = "s_write"
    /\ M!MCellWrite(t, CellOf(f.idx))
    /\ cell' = [cell EXCEPT ![f.idx] = f.val]
    /\ fate' = [fate EXCEPT ![f.val] = "cell"]
    /\ bad' = bad \cup (IF cell[f.idx] # 0 THEN {"overwrote_full_cell"} ELSE {})
    /\ SetTop(t, [f EXCEPT !.pc = "s_ld2"])
    /\ UNCHANGED <<todo, nextVal, sent, got, ndeliv, nspur, frozen>>

S_EnqOk(t) ==
    LET f == Top(t)
        p == FirstZero(f.cur, 0) IN
    /\ Fr(t)
    /\ f.pc = "s_enq" /\ p < SLOTS
    /\ M!Latest(FULLQ) = f.cur
    /\ M!MRmw(t, FULLQ, OrdSEnqOk, Set(f.cur, p, f.idx))
    /\ sent' = Append(sent, f.val)
    /\ Finish(t)
    /\ UNCHANGED <<cell, nextVal, got, fate, ndeliv, nspur, frozen, bad>>

S_EnqFail(t) ==
    /\ Fr(t)
    /\ Top(t).pc = "s_enq" /\ FirstZero(Top(t).cur, 0) < SLOTS
    /\ CasFail(t, FULLQ, OrdSEnqFail)
    /\ UNCHANGED <<todo, cell, nextVal, sent, got, fate, ndeliv, frozen, bad>>

\* enqueue found no zero position: expect("No empty slot available") panics.
EnqPanic(t) ==
    LET f == Top(t) IN
    /\ Fr(t)
    /\ f.pc \in {"s_enq", "r_enq"} /\ FirstZero(f.cur, 0) >= SLOTS
    /\ bad' = bad \cup {"panic_no_empty_slot"}
    /\ SetTop(t, [f EXCEPT !.pc = "panicked"])
    /\ UNCHANGED <<hist, tv, scv, cver, race, todo, cell, nextVal, sent, got, fate, ndeliv,
                   nspur, frozen>>

----------------------------------------------------------------------------
(* recv *)

R_Empty(t) ==
    LET f == Top(t) IN
    /\ Fr(t)
    /\ f.pc = "r_deq" /\ f.cur % Radix = 0
    /\ Finish(t)
    /\ UNCHANGED <<hist, tv, scv, cver, race, cell, nextVal, sent, got, fate, ndeliv, nspur,
                   frozen, bad>>

R_DeqOk(t) ==
    LET f == Top(t) IN
    /\ Fr(t)
    /\ f.pc = "r_deq" /\ f.cur % Radix # 0
    /\ M!Latest(FULLQ) = f.cur
    /\ M!MRmw(t, FULLQ, OrdRDeqOk, f.cur \div Radix)
    /\ SetTop(t, [f EXCEPT !.idx = f.cur % Radix, !.pc = "r_take"])
    /\ got' = Append(got, cell[f.cur % Radix])
    /\ UNCHANGED <<todo, cell, nextVal, sent, fate, ndeliv, nspur, frozen, bad>>

R_DeqFail(t) ==
    /\ Fr(t)
    /\ Top(t).pc = "r_deq" /\ Top(t).cur % Radix # 0
    /\ CasFail(t, FULLQ, OrdRDeqFail)
    /\ UNCHANGED <<todo, cell, nextVal, sent, got, fate, ndeliv, frozen, bad>>

R_Take(t) ==
    LET f == Top(t)
        v == cell[f.idx] IN
    /\ Fr(t)
    /\ f.pc = "r_take"
    /\ M!MCellWrite(t, CellOf(f.idx))
    /\ cell' = [cell EXCEPT ![f.idx] = 0]
    /\ IF v = 0
       THEN /\ bad' = bad \cup {"panic_full_slot_empty"}
            /\ UNCHANGED fate
       ELSE /\ fate' = [fate EXCEPT ![v] = "recv"]
            /\ bad' = bad \cup (IF fate[v] # "cell" THEN {"double_take"} ELSE {})
    /\ SetTop(t, [f EXCEPT !.val = v, !.pc = IF v = 0 THEN "panicked" ELSE "r_ld2"])
    /\ UNCHANGED <<todo, nextVal, sent, got, ndeliv, nspur, frozen>>

R_EnqOk(t) ==
    LET f == Top(t)
        p == FirstZero(f.cur, 0) IN
    /\ Fr(t)
    /\ f.pc = "r_enq" /\ p < SLOTS
    /\ M!Latest(EMPTYQ) = f.cur
    /\ M!MRmw(t, EMPTYQ, OrdREnqOk, Set(f.cur, p, f.idx))
    /\ Finish(t)
    /\ UNCHANGED <<cell, nextVal, sent, got, fate, ndeliv, nspur, frozen, bad>>

R_EnqFail(t) ==
    /\ Fr(t)
    /\ Top(t).pc = "r_enq" /\ FirstZero(Top(t).cur, 0) < SLOTS
    /\ CasFail(t, EMPTYQ, OrdREnqFail)
    /\ UNCHANGED <<todo, cell, nextVal, sent, got, fate, ndeliv, frozen, bad>>

----------------------------------------------------------------------------
Deliver(t) ==
    /\ t \in DeliverOn
    /\ frozen = 0
    /\ ndeliv < MaxDeliveries
    /\ Len(stack[t]) <= MaxNested
    /\ Top(t).pc # "panicked"
    /\ stack' = [stack EXCEPT ![t] = Append(@, SFrame)]
    /\ ndeliv' = ndeliv + 1
    /\ UNCHANGED <<hist, tv, scv, cver, race, todo, cell, nextVal, sent, got, fate, nspur,
                   frozen, fsteps, fmark, bad>>

StepOf(t) ==
    \/ S_Start(t)
    \/ Q_Load(t, "s_ld", EMPTYQ, "s_deq") /\ Top(t).val # 0
    \/ S_Full(t) \/ S_DeqOk(t) \/ S_DeqFail(t) \/ S_Write(t)
    \/ Q_Load(t, "s_ld2", FULLQ, "s_enq")
    \/ S_EnqOk(t) \/ S_EnqFail(t) \/ EnqPanic(t)
    \/ Q_Load(t, "r_ld", FULLQ, "r_deq")
    \/ R_Empty(t) \/ R_DeqOk(t) \/ R_DeqFail(t) \/ R_Take(t)
    \/ Q_Load(t, "r_ld2", EMPTYQ, "r_enq")
    \/ R_EnqOk(t) \/ R_EnqFail(t)

Step(t) == StepOf(t)

\* Freeze everybody but t, at any moment t has an operation in progress or about to start.
FreezeAt(t) ==
    /\ Freeze /\ frozen = 0
    /\ Top(t).kind # "idle" /\ Top(t).pc # "panicked"
    /\ frozen' = t
    /\ fsteps' = 0
    /\ fmark' = <<Len(stack[t]), todo[t]>>
    /\ UNCHANGED <<hist, tv, scv, cver, race, stack, todo, cell, nextVal, sent, got, fate,
                   ndeliv, nspur, bad>>

AllDone == \A t \in Threads : Top(t).kind = "idle" \/ Top(t).pc = "panicked"

Next ==
    \/ \E t \in Threads : Step(t) \/ Deliver(t) \/ FreezeAt(t)
    \/ (AllDone \/ FrozenDone) /\ UNCHANGED vars

Spec == Init /\ [][Next]_vars

----------------------------------------------------------------------------
(* Properties *)

IsPrefix(a, b) == Len(a) <= Len(b) /\ \A i \in 1..Len(a) : a[i] = b[i]

\* C06: what comes out is a prefix of what went in, in the order the sends took effect:
\* nothing invented, duplicated, reordered; nothing skipped.
Fifo == IsPrefix(got, sent)

\* C06/C08: every slot index is in exactly one place: a position of `empty`, a position of
\* `full`, or owned by exactly one frame between its dequeue and its enqueue.
InWord(n, i) == \E p \in 0..(SLOTS - 1) : Get(n, p) = i
CountInWord(n, i) == Cardinality({p \in 0..(SLOTS - 1) : Get(n, p) = i})
Owners(i) == Cardinality({<<t, k>> \in Threads \X (1..(MaxNested + 1)) :
                 /\ k <= Len(stack[t])
                 /\ stack[t][k].idx = i
                 /\ stack[t][k].pc \in {"s_write", "s_ld2", "s_enq", "r_take", "r_ld2", "r_enq", "panicked"}})
IndexPartition ==
    \A i \in 1..SLOTS :
        CountInWord(M!Latest(EMPTYQ), i) + CountInWord(M!Latest(FULLQ), i) + Owners(i) = 1

\* The words stay contiguous: no zero below a non-zero position.
Contiguous(n) == \A p \in 0..(SLOTS - 2) : Get(n, p) = 0 => Get(n, p + 1) = 0
QueuesContiguous == Contiguous(M!Latest(EMPTYQ)) /\ Contiguous(M!Latest(FULLQ))

\* C08: neither panic is reachable.
NoPanic == bad \cap {"panic_no_empty_slot", "panic_full_slot_empty"} = {}

\* C06: a cell that still holds a value is never overwritten (that value would be lost).
NoOverwrite == "overwrote_full_cell" \notin bad

\* C07: no value is dropped or taken twice.
NoDoubleDrop == bad \cap {"double_drop", "double_take"} = {}

\* C07: cell accesses are ordered by happens-before under the declared orderings.
NoRace == ~race

\* C07: a cell listed in `full` holds a value, a cell listed in `empty` holds none.
CellsAgree ==
    \A i \in 1..SLOTS :
        /\ InWord(M!Latest(FULLQ), i) => cell[i] # 0
        /\ InWord(M!Latest(EMPTYQ), i) => cell[i] = 0

\* C07: every value has exactly one fate; at the end nothing is in flight.
FatesFinal == AllDone /\ frozen = 0 /\ bad = {} =>
    \A v \in ValIds : fate[v] \in {"none", "cell", "recv", "dropped"}

\* C08: with everybody else frozen an operation completes within a bounded number of its own
\* steps (2 loads, 1 cell access, 2 successful CASes, and per CAS one failure because the
\* value loaded before the freeze is stale, plus the spurious failures) and is never blocked.
StepBound == 5 + 2 + MaxSpurious
FrozenBounded == frozen # 0 => fsteps <= StepBound
FrozenNeverBlocked == frozen # 0 /\ ~FrozenDone => ENABLED Step(frozen)

\* A send drops its value only when the `empty` word it read had no index in it.
=============================================================================
