---------------------------- MODULE TraceDefault ----------------------------
(* C16: paired probes - the kernel's default action vs the library's emulation - per signal. *)
EXTENDS Kernel, Integers, Sequences, TLC, Json, IOUtils

Rec == ndJsonDeserialize(IOEnv.TRACE)
VARIABLES l, known, viol
vars == <<l, known, viol>>
R == Rec[l]
Ev(e) == l <= Len(Rec) /\ R.e = e /\ l' = l + 1
Flag(c, s) == IF c THEN {s} ELSE {}
Num(s) == IF s < 10 THEN <<s>> ELSE <<s>>

TInit == l = 1 /\ known = {} /\ viol = {}

Killed(s) == "signaled:" \o ToString(s)
IsStopped(st) == st \in {"stopped:" \o ToString(x) : x \in StopSigs}

\* a known name is the platform's name for that number
TName ==
    /\ Ev("name")
    /\ known' = IF R.lib # "" THEN known \cup {R.sig} ELSE known
    /\ viol' = viol \cup Flag(R.lib # "" /\ R.lib # R.platform, "name_is_not_the_platforms")
                    \cup Flag(R.lib # "" /\ R.sig \notin Deliverable, "name_for_invalid_number")

\* the kernel table of Kernel.tla against the running kernel
TNative ==
    /\ Ev("native")
    /\ viol' = viol \cup Flag(
         CASE KernelDefault(R.sig) = "term" -> R.status # Killed(R.sig)
           [] KernelDefault(R.sig) = "stop" -> ~IsStopped(R.status)
           [] KernelDefault(R.sig) = "ignore" -> R.status # "exited:0"
           [] OTHER -> TRUE, "kernel_table_disagrees_with_kernel")
    /\ UNCHANGED known

TEmulate ==
    /\ Ev("emulate")
    /\ LET s == R.sig
           isKnown == s \in known \/ s \in {SIGKILL, SIGSTOP}
           inHandler == R.ctx = "handler" IN
       viol' = viol \cup
         (IF isKnown
          THEN CASE KernelDefault(s) = "term" ->
                      Flag(R.status # Killed(s), "known_signal_not_terminated_by_itself")
                 [] KernelDefault(s) = "stop" -> Flag(~IsStopped(R.status), "stop_signal_did_not_stop")
                 [] OTHER -> Flag(R.status # "exited:0", "ignored_signal_did_not_continue")
          ELSE \* unknown: an error and nothing else (the probe exits 3 on Err; inside a handler
               \* the action reports EMU_ERR and the process goes on)
               IF inHandler
               THEN Flag(R.status # "exited:0" \/ R.r.tokens # <<"EMU_ERR">>, "unknown_signal_not_rejected")
               ELSE Flag(R.status # "exited:3", "unknown_signal_not_rejected"))
    /\ UNCHANGED known

\* A stop signal in a re-parented process of a non-orphaned group: what the kernel does natively
\* (it stops the process) the emulation must do as well. If the sandbox does not re-parent to pid 1
\* or the kernel itself does not stop the process there, the record says nothing.
\* the record just before is the kernel's own behaviour in the same situation
nativeStops == /\ l > 1 /\ Rec[l - 1].e = "reparented" /\ Rec[l - 1].native /\ Rec[l - 1].sig = R.sig
               /\ Rec[l - 1].status = "exited:0" /\ Rec[l - 1].r.stopped = 1 /\ Rec[l - 1].r.ppid = 1
TReparented ==
    /\ Ev("reparented")
    /\ viol' = viol \cup Flag(R.status # "exited:0", "probe_died")
                    \cup Flag(R.status = "exited:0" /\ ~R.native /\ R.r.ppid = 1 /\ R.r.stopped # 1
                              /\ nativeStops, "stop_signal_did_not_stop")
    /\ UNCHANGED known
TNext == TName \/ TNative \/ TEmulate \/ TReparented
TraceSpec == TInit /\ [][TNext]_vars

TraceAccepted ==
    LET d == TLCGet("stats").diameter IN
    IF d - 1 = Len(Rec) THEN TRUE ELSE Print(<<"TRACE_REJECTED", d, Rec[d]>>, FALSE)

V_C16 == viol \ {"kernel_table_disagrees_with_kernel"} = {}
V_Env == "kernel_table_disagrees_with_kernel" \notin viol
=============================================================================
