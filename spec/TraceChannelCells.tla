-------------------------- MODULE TraceChannelCells --------------------------
(***************************************************************************)
(* C07 monitor for real executions of Channel<T> (channel.rs:139-165):     *)
(* who owns each payload cell and what happens to every payload.           *)
(*                                                                         *)
(* Unlike TraceChannelAbs (the linearisability oracle, which *rejects* a   *)
(* run at the first event no linearisation explains - usually a C06        *)
(* matter) this monitor accepts every event and only accumulates the       *)
(* C07-specific failures, so a run that has already broken FIFO-ness is    *)
(* still examined for double ownership of a cell and for payload fate.     *)
(*                                                                         *)
(*   cell_write  channel.rs:145  `*cell = Some(val)` after dequeue(empty)  *)
(*   cell_take   channel.rs:157  `cell.take()`      after dequeue(full)    *)
(*   drop        the harness's payload destructor (Tagged)                 *)
(*   chan_drop   the Channel itself is dropped                             *)
(***************************************************************************)
EXTENDS Naturals, Sequences, FiniteSets, TLC, Json, IOUtils

CONSTANT SLOTS

Rec == ndJsonDeserialize(IOEnv.TRACE)

VARIABLES l,        \* position
          cell,     \* [1..SLOTS -> payload id or 0]
          cur,      \* frame -> [kind, v, wrote]   the operation each frame is in
          sent, gone, received, chanGone, broken, viol
cvars == <<l, cell, cur, sent, gone, received, chanGone, broken, viol>>

R == Rec[l]
F == <<R.t, R.d>>
Flg(c, n) == IF c THEN {n} ELSE {}
Has(f) == f \in DOMAIN cur
Put(f, r) == [x \in DOMAIN cur \cup {f} |-> IF x = f THEN r ELSE cur[x]]
Del(f) == [x \in DOMAIN cur \ {f} |-> cur[x]]
Ev(e) == l <= Len(Rec) /\ R.e = e /\ l' = l + 1

\* every payload of a run that ended regularly (channel dropped, no panic) is gone
Leaks == Flg(chanGone /\ ~broken /\ ~(sent \subseteq gone), "payload_never_dropped")

CInit == /\ l = 1 /\ cell = [i \in 1..SLOTS |-> 0] /\ cur = <<>> /\ sent = {} /\ gone = {}
         /\ received = {} /\ chanGone = FALSE /\ broken = FALSE /\ viol = {}

CReset ==
    /\ Ev("reset")
    /\ viol' = viol \cup Leaks
    /\ cell' = [i \in 1..SLOTS |-> 0] /\ cur' = <<>> /\ sent' = {} /\ gone' = {}
    /\ received' = {} /\ chanGone' = FALSE /\ broken' = FALSE

CCallSend ==
    /\ Ev("call_send")
    /\ cur' = Put(F, [kind |-> "send", v |-> R.v, wrote |-> FALSE])
    /\ sent' = sent \cup {R.v}
    /\ UNCHANGED <<cell, gone, received, chanGone, broken, viol>>

CCellWrite ==
    /\ Ev("cell_write")
    /\ LET v == IF Has(F) THEN cur[F].v ELSE 0 IN
       /\ viol' = viol \cup Flg(R.i \in 1..SLOTS /\ cell[R.i] # 0,
                                "write_to_a_cell_whose_payload_was_not_taken")
       /\ cell' = IF R.i \in 1..SLOTS THEN [cell EXCEPT ![R.i] = v] ELSE cell
       /\ cur' = IF Has(F) THEN Put(F, [cur[F] EXCEPT !.wrote = TRUE]) ELSE cur
    /\ UNCHANGED <<sent, gone, received, chanGone, broken>>

CRetSend ==
    /\ Ev("ret_send")
    /\ viol' = viol \cup Flg(Has(F) /\ ~cur[F].wrote /\ cur[F].v \notin gone /\ ~broken,
                             "discarded_payload_not_dropped_by_send")
    /\ cur' = Del(F)
    /\ UNCHANGED <<cell, sent, gone, received, chanGone, broken>>

CCallRecv ==
    /\ Ev("call_recv")
    /\ cur' = Put(F, [kind |-> "recv", v |-> 0, wrote |-> FALSE])
    /\ UNCHANGED <<cell, sent, gone, received, chanGone, broken, viol>>

CCellTake ==
    /\ Ev("cell_take")
    /\ viol' = viol \cup Flg(R.i \in 1..SLOTS /\ cell[R.i] = 0,
                             "take_from_a_cell_already_taken")
    /\ cell' = IF R.i \in 1..SLOTS THEN [cell EXCEPT ![R.i] = 0] ELSE cell
    /\ UNCHANGED <<cur, sent, gone, received, chanGone, broken>>

CRetRecv ==
    /\ Ev("ret_recv")
    /\ received' = IF R.v # 0 THEN received \cup {R.v} ELSE received
    /\ viol' = viol \cup Flg(R.v # 0 /\ R.v \in received, "payload_received_twice")
    /\ cur' = Del(F)
    /\ UNCHANGED <<cell, sent, gone, chanGone, broken>>

\* A payload is destroyed once: by whoever received it, by the send that discards it (full
\* channel), or by the channel's own destructor - never while it still sits in the channel.
CDrop ==
    /\ Ev("drop")
    /\ LET mine == Has(F) /\ cur[F].kind = "send" /\ cur[F].v = R.v /\ ~cur[F].wrote IN
       viol' = viol \cup Flg(R.v \in gone, "payload_dropped_twice")
                    \cup Flg(R.v \notin gone /\ ~mine /\ R.v \notin received /\ ~chanGone,
                             "payload_dropped_while_still_in_the_channel")
    /\ gone' = gone \cup {R.v}
    /\ UNCHANGED <<cell, cur, sent, received, chanGone, broken>>

CChanDrop == Ev("chan_drop") /\ chanGone' = TRUE
             /\ UNCHANGED <<cell, cur, sent, gone, received, broken, viol>>

\* panics / stuck runs are C08's business; payload fate is not judged for them
CBroken == /\ l <= Len(Rec) /\ R.e \in {"panic", "deadlock", "livelock", "aborted"} /\ l' = l + 1
           /\ broken' = TRUE
           /\ UNCHANGED <<cell, cur, sent, gone, received, chanGone, viol>>

CSkip == /\ l <= Len(Rec) /\ R.e \in {"deliver", "return", "done"} /\ l' = l + 1
         /\ UNCHANGED <<cell, cur, sent, gone, received, chanGone, broken, viol>>

CNext == CReset \/ CCallSend \/ CCellWrite \/ CRetSend \/ CCallRecv \/ CCellTake \/ CRetRecv
         \/ CDrop \/ CChanDrop \/ CBroken \/ CSkip

TraceSpec == CInit /\ [][CNext]_cvars

TraceAccepted ==
    LET d == TLCGet("stats").diameter IN
    IF d - 1 = Len(Rec) THEN TRUE ELSE Print(<<"TRACE_REJECTED", d, Rec[d]>>, FALSE)

V_C07 == viol = {} /\ (l = Len(Rec) + 1 => Leaks = {})
=============================================================================
