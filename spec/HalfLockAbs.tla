----------------------------- MODULE HalfLockAbs -----------------------------
(***************************************************************************)
(* Property-level state machine of the RCU half-lock: which snapshots      *)
(* exist, which one is published, which read sections hold which snapshot. *)
(* It is the oracle for executions of the real code (TraceHalfLockAbs) and *)
(* says nothing about HOW the implementation achieves the guards - so any  *)
(* implementation that has the property is accepted, however refactored.   *)
(*                                                                         *)
(* Events (emitted by the cfg(sighook_verif) hooks in half_lock.rs):       *)
(*   alloc(s)   a writer boxed a new snapshot        half_lock.rs:75        *)
(*   publish(s) the pointer swap                     :81                    *)
(*   open(s)    a reader loaded the pointer          :150                   *)
(*   use(s)     the reader's code dereferences it                           *)
(*   close(s)   the read guard was dropped           :62                    *)
(*   free(s)    the writer drops the old box         :86                    *)
(* A frame is <<thread, depth>>; depth > 0 means inside a signal handler.  *)
(***************************************************************************)
EXTENDS Naturals, FiniteSets

VARIABLES live,      \* snapshots allocated and not yet freed
          cur,       \* the published snapshot
          replaced,  \* snapshots that were published once and have been replaced
          held,      \* set of <<thread, depth, snapshot>>: open read sections
          everFreed  \* snapshots that have been freed

absvars == <<live, cur, replaced, held, everFreed>>

AbsInit ==
    /\ live = {1}
    /\ cur = 1
    /\ replaced = {}
    /\ held = {}
    /\ everFreed = {}

AbsReset ==
    /\ live' = {1}
    /\ cur' = 1
    /\ replaced' = {}
    /\ held' = {}
    /\ everFreed' = {}

AAlloc(t, d, s) ==
    /\ s \notin live /\ s \notin everFreed
    /\ live' = live \cup {s}
    /\ UNCHANGED <<cur, replaced, held, everFreed>>

APublish(t, d, s) ==
    /\ s \in live /\ s # cur /\ s \notin replaced
    /\ replaced' = replaced \cup {cur}
    /\ cur' = s
    /\ UNCHANGED <<live, held, everFreed>>

\* C01: a section only ever opens on a snapshot that has not been released.
AOpen(t, d, s) ==
    /\ s \in live
    /\ s = cur \/ s \in replaced
    /\ held' = held \cup {<<t, d, s>>}
    /\ UNCHANGED <<live, cur, replaced, everFreed>>

AUse(t, d, s) ==
    /\ <<t, d, s>> \in held
    /\ s \in live
    /\ UNCHANGED absvars

AClose(t, d, s) ==
    /\ <<t, d, s>> \in held
    /\ held' = held \ {<<t, d, s>>}
    /\ UNCHANGED <<live, cur, replaced, everFreed>>

\* C01: released exactly once, only after it was replaced, while nobody holds it, and by a
\* frame that is not a signal handler.
AFree(t, d, s) ==
    /\ s \in live /\ s \in replaced /\ s # cur
    /\ \A h \in held : h[3] # s
    /\ d = 0
    /\ live' = live \ {s}
    /\ everFreed' = everFreed \cup {s}
    /\ UNCHANGED <<cur, replaced, held>>

\* A frame returns / a thread ends: it holds nothing any more.
AReturn(t, d) ==
    /\ \A h \in held : ~(h[1] = t /\ h[2] = d)
    /\ UNCHANGED absvars

\* Nothing is in flight: every replaced snapshot has been released (no leak).
Quiescent == held = {} /\ live = {cur}

NoHeldFreed == \A h \in held : h[3] \in live
=============================================================================
