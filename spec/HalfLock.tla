------------------------------ MODULE HalfLock ------------------------------
(***************************************************************************)
(* Fine-grained model of signal-hook-registry/src/half_lock.rs: one action *)
(* per atomic operation of the Rust source, memory through Mem.tla.        *)
(*                                                                         *)
(*   reader  (read(), Drop for ReadGuard)      half_lock.rs:125-157,59-64  *)
(*     R_Gen   generation.load            :129                              *)
(*     R_Inc   lock[gen % 2].fetch_add(1) :132                              *)
(*     R_Ptr   data.load (section opens)  :150                              *)
(*     R_Use   dereference of the snapshot (the caller's code)              *)
(*     R_Dec   lock.fetch_sub(1) (section closes)  :62                      *)
(*   writer  (write(), WriteGuard::store, write_barrier)  :73-87,165-216    *)
(*     W_Lock  write_mutex.lock()         :198                              *)
(*     W_Ptr   data.load                  :205                              *)
(*     W_Alloc Box::new(val)              :75                               *)
(*     W_Swap  data.swap(new)             :81   (variant Publish = "store") *)
(*     W_Seen  update_seen, first round   :170 (both slots)                 *)
(*     W_Flip  generation.fetch_add(1)    :173                              *)
(*     W_Hint  spin_loop_hint / yield_now :181-187                          *)
(*     W_Re    update_seen in the loop    :190 (only slots not yet seen 0)  *)
(*     W_Free  drop(Box::from_raw(old))   :86                               *)
(*     W_Unlock  drop of the MutexGuard                                     *)
(*                                                                         *)
(* Every thread has a stack of frames; only the top frame steps.           *)
(* Deliver(t) pushes a reader frame on thread t at any boundary: a signal  *)
(* handler nested on a thread that may itself be in the middle of store(). *)
(*                                                                         *)
(* The constants the code chooses are parameters, extracted from the       *)
(* running code by the harness: ReadOrder, Barrier, Sticky and the memory  *)
(* ordering of every operation (Ord).                                      *)
(***************************************************************************)
EXTENDS Naturals, Sequences, FiniteSets, TLC

CONSTANTS Readers, Writers,      \* disjoint sets of thread ids (integers)
          Sections, Stores,      \* operations per reader / writer thread
          DeliverOn,             \* threads on which a handler may be nested
          MaxNested,             \* nesting depth of handlers per thread
          MaxDeliveries,         \* total nested handlers
          ReadOrder,             \* "count_then_ptr" (the code) | "ptr_then_count"
          Barrier,               \* "both" (the code) | "only_current" | "none"
          Sticky,                \* TRUE (the code): a slot once seen zero stays seen
          Publish,               \* "swap" (the code: data.swap(new)) | "store" (data.store(new),
                                 \* the old pointer taken from the writer's earlier load)
          OrdRGen, OrdRInc, OrdRPtr, OrdRDec, OrdWPtr, OrdWSwap, OrdWSeen, OrdWFlip

Threads == Readers \cup Writers
MaxBoxes == 1 + Cardinality(Writers) * Stores

DATA == 1
GEN == 2
LOCK0 == 3
LOCK1 == 4
MTX == 5
LockLoc(i) == IF i = 0 THEN LOCK0 ELSE LOCK1
CellOf(b) == 10 + b

Locs == {DATA, GEN, LOCK0, LOCK1, MTX}
Cells == {CellOf(b) : b \in 1..MaxBoxes}
InitVal(l) == IF l = DATA THEN 1 ELSE 0

VARIABLES hist, tv, scv, cver, race,  \* Mem
          stack,      \* per thread: sequence of frames, the last one is running
          todo,       \* per thread: operations still to start
          box,        \* heap: box id -> "none" | "live" | "freed"
          nboxes,     \* boxes allocated so far
          ndeliv,     \* handlers nested so far
          bad         \* set of strings: things that must never happen

M == INSTANCE Mem WITH MThreads <- Threads

vars == <<hist, tv, scv, cver, race, stack, todo, box, nboxes, ndeliv, bad>>

Idle == [kind |-> "idle", pc |-> "done", gen |-> 0, ptr |-> 0, seen |-> <<FALSE, FALSE>>,
         old |-> 0, new |-> 0]
RFrame == [Idle EXCEPT !.kind = "R", !.pc = "r_gen"]
WFrame == [Idle EXCEPT !.kind = "W", !.pc = "w_lock"]

Top(t) == stack[t][Len(stack[t])]
SetTop(t, f) == stack' = [stack EXCEPT ![t] = [@ EXCEPT ![Len(@)] = f]]

Init ==
    /\ M!MemInit
    /\ stack = [t \in Threads |-> << IF t \in Readers THEN RFrame ELSE WFrame >>]
    /\ todo = [t \in Threads |-> (IF t \in Readers THEN Sections ELSE Stores) - 1]
    /\ box = [b \in 1..MaxBoxes |-> IF b = 1 THEN "live" ELSE "none"]
    /\ nboxes = 1
    /\ ndeliv = 0
    /\ bad = {}

Reset ==
    /\ M!MemReset
    /\ stack' = [t \in Threads |-> << IF t \in Readers THEN RFrame ELSE WFrame >>]
    /\ todo' = [t \in Threads |-> (IF t \in Readers THEN Sections ELSE Stores) - 1]
    /\ box' = [b \in 1..MaxBoxes |-> IF b = 1 THEN "live" ELSE "none"]
    /\ nboxes' = 1
    /\ ndeliv' = 0
    /\ bad' = {}

\* The frame on top of t finished its operation.
Finish(t) ==
    IF Len(stack[t]) > 1
    THEN /\ stack' = [stack EXCEPT ![t] = SubSeq(@, 1, Len(@) - 1)]
         /\ UNCHANGED todo
    ELSE IF todo[t] > 0
         THEN /\ stack' = [stack EXCEPT ![t] = << IF t \in Readers THEN RFrame ELSE WFrame >>]
              /\ todo' = [todo EXCEPT ![t] = @ - 1]
         ELSE /\ stack' = [stack EXCEPT ![t] = << Idle >>]
              /\ UNCHANGED todo

CountFirst == ReadOrder = "count_then_ptr"

----------------------------------------------------------------------------
(* Reader *)

R_Gen(t) ==
    LET f == Top(t) IN
    /\ f.pc = "r_gen"
    /\ \E ts \in M!ReadTs(t, GEN, OrdRGen) :
         /\ M!MRead(t, GEN, OrdRGen, ts)
         /\ SetTop(t, [f EXCEPT !.gen = M!ValAt(GEN, ts),
                                !.pc = IF CountFirst THEN "r_inc" ELSE "r_ptr"])
    /\ UNCHANGED <<todo, box, nboxes, ndeliv, bad>>

R_Inc(t) ==
    LET f == Top(t)
        l == LockLoc(f.gen % 2) IN
    /\ f.pc = "r_inc"
    /\ M!MRmw(t, l, OrdRInc, M!Latest(l) + 1)
    /\ SetTop(t, [f EXCEPT !.pc = IF CountFirst THEN "r_ptr" ELSE "r_use"])
    /\ UNCHANGED <<todo, box, nboxes, ndeliv, bad>>

R_Ptr(t) ==
    LET f == Top(t) IN
    /\ f.pc = "r_ptr"
    /\ \E ts \in M!ReadTs(t, DATA, OrdRPtr) :
         /\ M!MRead(t, DATA, OrdRPtr, ts)
         /\ SetTop(t, [f EXCEPT !.ptr = M!ValAt(DATA, ts),
                                !.pc = IF CountFirst THEN "r_use" ELSE "r_inc"])
    /\ UNCHANGED <<todo, box, nboxes, ndeliv, bad>>

R_Use(t) ==
    LET f == Top(t) IN
    /\ f.pc = "r_use"
    /\ M!MCellRead(t, CellOf(f.ptr))
    /\ bad' = IF box[f.ptr] = "live" THEN bad ELSE bad \cup {"use_after_free"}
    /\ SetTop(t, [f EXCEPT !.pc = "r_dec"])
    /\ UNCHANGED <<todo, box, nboxes, ndeliv>>

R_Dec(t) ==
    LET f == Top(t)
        l == LockLoc(f.gen % 2) IN
    /\ f.pc = "r_dec"
    /\ M!MRmw(t, l, OrdRDec, M!Latest(l) - 1)
    /\ Finish(t)
    /\ UNCHANGED <<box, nboxes, ndeliv, bad>>

----------------------------------------------------------------------------
(* Writer *)

AllSeen(s) == s[1] /\ s[2]

\* Where the barrier goes after an update of `seen` that is not the first round.
AfterRound(s) == IF AllSeen(s) THEN "w_free" ELSE "w_hint"

W_Lock(t) ==
    LET f == Top(t) IN
    /\ f.pc = "w_lock"
    /\ M!Latest(MTX) = 0
    /\ M!MRmw(t, MTX, "Acquire", t)
    /\ SetTop(t, [f EXCEPT !.pc = "w_ptr"])
    /\ UNCHANGED <<todo, box, nboxes, ndeliv, bad>>

W_Ptr(t) ==
    LET f == Top(t) IN
    /\ f.pc = "w_ptr"
    /\ \E ts \in M!ReadTs(t, DATA, OrdWPtr) :
         /\ M!MRead(t, DATA, OrdWPtr, ts)
         /\ SetTop(t, [f EXCEPT !.ptr = M!ValAt(DATA, ts), !.pc = "w_alloc"])
    /\ UNCHANGED <<todo, box, nboxes, ndeliv, bad>>

W_Alloc(t) ==
    LET f == Top(t)
        b == nboxes + 1 IN
    /\ f.pc = "w_alloc"
    /\ M!MCellWrite(t, CellOf(b))
    /\ box' = [box EXCEPT ![b] = "live"]
    /\ nboxes' = b
    /\ SetTop(t, [f EXCEPT !.new = b, !.pc = "w_swap"])
    /\ UNCHANGED <<todo, ndeliv, bad>>

W_Swap(t) ==
    LET f == Top(t) IN
    /\ f.pc = "w_swap"
    /\ IF Publish = "swap" THEN M!MRmw(t, DATA, OrdWSwap, f.new)
                           ELSE M!MStore(t, DATA, OrdWSwap, f.new)
    /\ SetTop(t, [f EXCEPT !.old = IF Publish = "swap" THEN M!Latest(DATA) ELSE f.ptr,
                           !.seen = IF Barrier = "only_current"
                                    THEN <<FALSE, FALSE>> ELSE <<FALSE, FALSE>>,
                           !.pc = IF Barrier = "none" THEN "w_free" ELSE "w_seen0"])
    /\ UNCHANGED <<todo, box, nboxes, ndeliv, bad>>

\* First round of update_seen: both slots are loaded.
W_Seen(t, i) ==
    LET f == Top(t)
        l == LockLoc(i) IN
    /\ f.pc = (IF i = 0 THEN "w_seen0" ELSE "w_seen1")
    /\ \E ts \in M!ReadTs(t, l, OrdWSeen) :
         /\ M!MRead(t, l, OrdWSeen, ts)
         /\ SetTop(t, [f EXCEPT !.seen[i + 1] = (M!ValAt(l, ts) = 0),
                                !.pc = IF i = 0 THEN "w_seen1" ELSE "w_flip"])
    /\ UNCHANGED <<todo, box, nboxes, ndeliv, bad>>

W_Flip(t) ==
    LET f == Top(t)
        g == M!Latest(GEN)
        \* "only_current": pretend the slot new readers are diverted to was seen idle.
        s == IF Barrier = "only_current"
             THEN [f.seen EXCEPT ![((g + 1) % 2) + 1] = TRUE] ELSE f.seen IN
    /\ f.pc = "w_flip"
    /\ M!MRmw(t, GEN, OrdWFlip, g + 1)
    /\ SetTop(t, [f EXCEPT !.seen = s, !.pc = AfterRound(s)])
    /\ UNCHANGED <<todo, box, nboxes, ndeliv, bad>>

W_Hint(t) ==
    LET f == Top(t) IN
    /\ f.pc = "w_hint"
    /\ SetTop(t, [f EXCEPT !.pc = IF Sticky /\ f.seen[1] THEN "w_re1" ELSE "w_re0"])
    /\ UNCHANGED <<hist, tv, scv, cver, race, todo, box, nboxes, ndeliv, bad>>

W_Re(t, i) ==
    LET f == Top(t)
        l == LockLoc(i) IN
    /\ f.pc = (IF i = 0 THEN "w_re0" ELSE "w_re1")
    /\ \E ts \in M!ReadTs(t, l, OrdWSeen) :
         /\ M!MRead(t, l, OrdWSeen, ts)
         /\ LET z == (M!ValAt(l, ts) = 0)
                s == [f.seen EXCEPT ![i + 1] = IF Sticky THEN (@ \/ z) ELSE z]
            IN SetTop(t, [f EXCEPT !.seen = s,
                                   !.pc = IF i = 0 /\ ~(Sticky /\ s[2]) THEN "w_re1"
                                          ELSE AfterRound(s)])
    /\ UNCHANGED <<todo, box, nboxes, ndeliv, bad>>

W_Free(t) ==
    LET f == Top(t) IN
    /\ f.pc = "w_free"
    /\ M!MCellWrite(t, CellOf(f.old))
    /\ box' = [box EXCEPT ![f.old] = "freed"]
    /\ bad' = bad \cup (IF box[f.old] # "live" THEN {"double_free"} ELSE {})
                  \cup (IF Len(stack[t]) > 1 THEN {"free_in_handler"} ELSE {})
    /\ SetTop(t, [f EXCEPT !.pc = "w_unlock"])
    /\ UNCHANGED <<todo, nboxes, ndeliv>>

W_Unlock(t) ==
    LET f == Top(t) IN
    /\ f.pc = "w_unlock"
    /\ M!MStore(t, MTX, "Release", 0)
    /\ Finish(t)
    /\ UNCHANGED <<box, nboxes, ndeliv, bad>>

----------------------------------------------------------------------------
(* A signal handler (a read section) nested on thread t, at any boundary. *)
Deliver(t) ==
    /\ t \in DeliverOn
    /\ ndeliv < MaxDeliveries
    /\ Len(stack[t]) <= MaxNested
    /\ stack' = [stack EXCEPT ![t] = Append(@, RFrame)]
    /\ ndeliv' = ndeliv + 1
    /\ UNCHANGED <<hist, tv, scv, cver, race, todo, box, nboxes, bad>>

Step(t) ==
    \/ R_Gen(t) \/ R_Inc(t) \/ R_Ptr(t) \/ R_Use(t) \/ R_Dec(t)
    \/ W_Lock(t) \/ W_Ptr(t) \/ W_Alloc(t) \/ W_Swap(t)
    \/ W_Seen(t, 0) \/ W_Seen(t, 1) \/ W_Flip(t) \/ W_Hint(t)
    \/ W_Re(t, 0) \/ W_Re(t, 1) \/ W_Free(t) \/ W_Unlock(t)

AllDone == \A t \in Threads : Top(t).kind = "idle"

Next == (\E t \in Threads : Step(t) \/ Deliver(t)) \/ (AllDone /\ UNCHANGED vars)

Spec == Init /\ [][Next]_vars

FairSpec == Spec /\ \A t \in Threads : WF_vars(Step(t))

----------------------------------------------------------------------------
(* Properties *)

InSection(f) == f.kind = "R" /\ f.pc \in {"r_use", "r_dec"}

\* C01: no read section ever holds a snapshot that has been released.
NoUseAfterFree ==
    /\ "use_after_free" \notin bad
    /\ \A t \in Threads : \A i \in 1..Len(stack[t]) :
         InSection(stack[t][i]) => box[stack[t][i].ptr] = "live"

\* C01: each snapshot is released exactly once, by a writer outside any handler.
FreeOnce == "double_free" \notin bad /\ "free_in_handler" \notin bad

\* C01 (weak memory): the reader's dereference and the writer's free are ordered.
NoRace == ~race

\* The published snapshot is always live.
CurrentLive == box[M!Latest(DATA)] = "live"

\* The slot counters equal the number of frames between increment and decrement.
CountOf(i) ==
    Cardinality({<<t, k>> \in Threads \X (1..(MaxNested + 1)) :
                   /\ k <= Len(stack[t])
                   /\ stack[t][k].kind = "R"
                   /\ stack[t][k].gen % 2 = i
                   /\ IF CountFirst THEN stack[t][k].pc \in {"r_ptr", "r_use", "r_dec"}
                                    ELSE stack[t][k].pc \in {"r_use", "r_dec"}})
CountersExact == \A i \in {0, 1} : M!Latest(LockLoc(i)) = CountOf(i)

\* C18: deadlock freedom is TLC's deadlock check (AllDone stutters).
\* C18: a writer inside the barrier finishes once readers stop arriving.
InBarrier(t) == Top(t).kind = "W" /\ Top(t).pc \in {"w_hint", "w_re0", "w_re1"}
WriterProgress == \A t \in Writers : []<>(~InBarrier(t))
Termination == <>[]AllDone

\* C03: a reader frame is always able to step (never waits for anybody).
ReaderNeverBlocked ==
    \A t \in Threads : Top(t).kind = "R" => ENABLED Step(t)
=============================================================================
