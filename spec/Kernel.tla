------------------------------- MODULE Kernel -------------------------------
(***************************************************************************)
(* What the operating system (Linux) does, as far as the properties need   *)
(* it: which signal numbers sigaction() accepts, the default action of     *)
(* every signal, and which siginfo causes carry a sender.  The tables are  *)
(* validated against the running kernel by forked probes (`native` events  *)
(* in TraceDefault, OS verdicts of the unchecked entry points in           *)
(* TraceReject), so they are measured, not assumed.                        *)
(***************************************************************************)
EXTENDS Naturals, Integers

SIGKILL == 9
SIGSTOP == 19
SIGCHLD == 17

\* Numbers sigaction() accepts for installing a handler (glibc reserves 32 and 33).
Catchable == (1..64) \ {SIGKILL, SIGSTOP, 32, 33}
Deliverable == (1..64) \ {32, 33}

StopSigs == {19, 20, 21, 22}
IgnSigs == {17, 18, 23, 28}
TermSigs == Deliverable \ (StopSigs \cup IgnSigs)

KernelDefault(s) ==
    IF s \in StopSigs THEN "stop"
    ELSE IF s \in IgnSigs THEN "ignore"
    ELSE IF s \in TermSigs THEN "term"
    ELSE "invalid"

\* The library refuses these outright.
Forbidden == {4, 8, 9, 11, 19}

\* si_code values (Linux) the origin extractor distinguishes.
SI_USER == 0
SI_KERNEL == 128
SI_QUEUE == -1
SI_TIMER == -2
SI_MESGQ == -3
SI_TKILL == -6
=============================================================================
