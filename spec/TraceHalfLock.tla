----------------------------- MODULE TraceHalfLock -----------------------------
(***************************************************************************)
(* Fine-grained trace validation: every shim operation the real half-lock  *)
(* performed under the harness scheduler must be the next action of        *)
(* HalfLock.tla for that thread, on the same location, with the same       *)
(* ordering and the same values.  Acceptance shows that the fine model's   *)
(* step structure IS the code's step structure (so TLC's exhaustive        *)
(* exploration of HalfLock.tla speaks about this code); a rejection marks  *)
(* the fine model stale and is not, by itself, a property violation.       *)
(***************************************************************************)
EXTENDS HalfLock, Json, IOUtils

Rec == ndJsonDeserialize(IOEnv.TRACE)

VARIABLE l

R == Rec[l]
IsEvent(e) == l <= Len(Rec) /\ R.e = e /\ l' = l + 1
IsOp(k, loc) == IsEvent("op") /\ R.k = k /\ R.l = loc
NewTop(t) == stack'[t][Len(stack[t])]
LockIdx(loc) == IF loc = "lock0" THEN 0 ELSE 1

TInit == Init /\ l = 1

TReset == IsEvent("reset") /\ Reset

TRGen == IsOp("load", "gen") /\ R.o = OrdRGen /\ R_Gen(R.t) /\ NewTop(R.t).gen = R.old
TRInc == /\ IsEvent("op") /\ R.k = "fetch_add" /\ R.l \in {"lock0", "lock1"}
         /\ R.o = OrdRInc /\ LockIdx(R.l) = Top(R.t).gen % 2
         /\ M!Latest(LockLoc(LockIdx(R.l))) = R.old
         /\ R_Inc(R.t)
TRPtr == IsOp("load", "data") /\ Top(R.t).kind = "R" /\ R.o = OrdRPtr
         /\ R_Ptr(R.t) /\ NewTop(R.t).ptr = R.old
TRUse == IsEvent("use") /\ Top(R.t).ptr = R.s /\ R_Use(R.t)
TRDec == /\ IsEvent("op") /\ R.k = "fetch_sub" /\ R.l \in {"lock0", "lock1"}
         /\ R.o = OrdRDec /\ LockIdx(R.l) = Top(R.t).gen % 2
         /\ M!Latest(LockLoc(LockIdx(R.l))) = R.old
         /\ R_Dec(R.t)

TWLock == IsOp("lock", "mtx") /\ W_Lock(R.t)
TWPtr == IsOp("load", "data") /\ Top(R.t).kind = "W" /\ R.o = OrdWPtr /\ W_Ptr(R.t)
TWAlloc == IsEvent("alloc") /\ W_Alloc(R.t) /\ nboxes' = R.s
TWSwap == IsOp(Publish, "data") /\ R.o = OrdWSwap /\ (Publish = "swap" => M!Latest(DATA) = R.old)
          /\ Top(R.t).new = R.new /\ W_Swap(R.t)
TWSeen == /\ IsEvent("op") /\ R.k = "load" /\ R.l \in {"lock0", "lock1"} /\ R.o = OrdWSeen
          /\ (W_Seen(R.t, LockIdx(R.l)) \/ W_Re(R.t, LockIdx(R.l)))
          /\ NewTop(R.t).seen[LockIdx(R.l) + 1] = (Top(R.t).seen[LockIdx(R.l) + 1] \/ R.old = 0)
TWFlip == IsOp("fetch_add", "gen") /\ R.o = OrdWFlip /\ M!Latest(GEN) = R.old /\ W_Flip(R.t)
TWHint == IsEvent("op") /\ R.k \in {"spin", "yield"} /\ W_Hint(R.t)
TWFree == IsEvent("free") /\ Top(R.t).old = R.s /\ W_Free(R.t)
TWUnlock == IsOp("unlock", "mtx") /\ W_Unlock(R.t)

TDeliver == IsEvent("deliver") /\ Deliver(R.t)

\* Abstract events that are consequences of the step just taken: checked, no state change.
TOpen == IsEvent("open") /\ Top(R.t).ptr = R.s /\ UNCHANGED vars
TClose == IsEvent("close") /\ UNCHANGED vars
TPublish == IsEvent("publish") /\ M!Latest(DATA) = R.s /\ UNCHANGED vars
TReturn == IsEvent("return") /\ UNCHANGED vars
TDone == IsEvent("done") /\ Top(R.t).kind = "idle" /\ UNCHANGED vars

TNext == \/ TReset \/ TRGen \/ TRInc \/ TRPtr \/ TRUse \/ TRDec
         \/ TWLock \/ TWPtr \/ TWAlloc \/ TWSwap \/ TWSeen \/ TWFlip \/ TWHint \/ TWFree
         \/ TWUnlock \/ TDeliver \/ TOpen \/ TClose \/ TPublish \/ TReturn \/ TDone

TraceSpec == TInit /\ [][TNext]_<<vars, l>>

TraceAccepted ==
    LET d == TLCGet("stats").diameter IN
    IF d - 1 = Len(Rec) THEN TRUE
    ELSE Print(<<"TRACE_REJECTED", d, Rec[d]>>, FALSE)
=============================================================================
