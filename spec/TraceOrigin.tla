----------------------------- MODULE TraceOrigin -----------------------------
(* C17: synthetic siginfo records (chosen pid/uid bytes) and real deliveries with ground truth. *)
EXTENDS OriginOps, Sequences, TLC, Json, IOUtils

Rec == ndJsonDeserialize(IOEnv.TRACE)
VARIABLES l, viol
tvars == <<l, viol>>
R == Rec[l]
Flg(c, s) == IF c THEN {s} ELSE {}

TInit == l = 1 /\ viol = {}

\* R.x = <<pid, uid>> written where si_pid / si_uid live: poison patterns and the legitimate corner
\* values 0 (a sender outside the receiver's pid namespace; root), 1, INT_MAX.

TSyn ==
    /\ l <= Len(Rec) /\ R.e = "origin_syn" /\ l' = l + 1
    /\ viol' = viol
         \cup Flg(R.rsig # R.signo, "wrong_signal_number")
         \cup Flg(R.cause # Cause(R.signo, R.code), "wrong_cause_class")
         \cup Flg(R.has # HasProcess(R.signo, R.code), "process_presence_wrong")
         \cup Flg(R.has /\ (R.pid # R.x[1] \/ R.uid # R.x[2]), "pid_uid_read_from_wrong_place")

TReal ==
    /\ l <= Len(Rec) /\ R.e = "origin_real" /\ l' = l + 1
    /\ IF R.status # "exited:0" \/ "sig" \notin DOMAIN R.r
       THEN viol' = viol \cup {"no_origin_obtained"}
       ELSE LET c == HowCause(R.how)
                wantProc == c \notin {"Kernel", "Unknown"} IN
            viol' = viol
              \cup Flg(R.r.sig # R.sig, "wrong_signal_number")
              \cup Flg(R.r.cause # c, "wrong_cause_class")
              \cup Flg((R.r.has = 1) # wantProc, "process_presence_wrong")
              \cup Flg(wantProc /\ R.r.has = 1 /\ R.r.pid # R.r.expect_pid, "wrong_pid")
              \cup Flg(wantProc /\ R.r.has = 1 /\ R.r.uid # R.r.myuid, "wrong_uid")

TraceSpec == TInit /\ [][TSyn \/ TReal]_tvars
TraceAccepted ==
    LET d == TLCGet("stats").diameter IN
    IF d - 1 = Len(Rec) THEN TRUE ELSE Print(<<"TRACE_REJECTED", d, Rec[d]>>, FALSE)
V_C17 == viol = {}
\* C10: a record handed out by the info-carrying exfiltrators is a faithful copy of one real delivery
V_C10 == viol = {}
=============================================================================
