------------------------------ MODULE OriginOps ------------------------------
(***************************************************************************)
(* C17: Origin::extract (siginfo.rs:240-260 over extract.c:17-49) as a     *)
(* function of (si_signo, si_code): the cause class and whether a process  *)
(* (pid, uid) is reported.  CLD_* codes count only for SIGCHLD.            *)
(***************************************************************************)
EXTENDS Kernel

Cause(signo, code) ==
    CASE code = SI_KERNEL -> "Kernel"
      [] code = SI_USER -> "Sent(User)"
      [] code = SI_TKILL -> "Sent(TKill)"
      [] code = SI_QUEUE -> "Sent(Queue)"
      [] code = SI_MESGQ -> "Sent(MesgQ)"
      [] signo = SIGCHLD /\ code = 1 -> "Chld(Exited)"
      [] signo = SIGCHLD /\ code = 2 -> "Chld(Killed)"
      [] signo = SIGCHLD /\ code = 3 -> "Chld(Dumped)"
      [] signo = SIGCHLD /\ code = 4 -> "Chld(Trapped)"
      [] signo = SIGCHLD /\ code = 5 -> "Chld(Stopped)"
      [] signo = SIGCHLD /\ code = 6 -> "Chld(Continued)"
      [] OTHER -> "Unknown"

\* The kernel fills si_pid / si_uid exactly for these causes.
HasProcess(signo, code) == Cause(signo, code) \notin {"Kernel", "Unknown"}

\* How each sending mechanism shows up.
HowCause(how) ==
    CASE how = "kill" -> "Sent(User)"
      [] how = "child_kill" -> "Sent(User)"
      [] how = "raise" -> "Sent(TKill)"
      [] how = "sigqueue" -> "Sent(Queue)"
      [] how = "alarm" -> "Kernel"
      [] how = "timer" -> "Unknown"
      [] how = "child_exit" -> "Chld(Exited)"
      [] how = "child_killed" -> "Chld(Killed)"
      [] OTHER -> "Chld(Stopped)"
=============================================================================
