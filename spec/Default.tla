------------------------------ MODULE Default ------------------------------
(***************************************************************************)
(* low_level::emulate_default_handler (signal_details.rs:174-240) step by  *)
(* step over the kernel's per-signal state, for every signal number and    *)
(* every calling context.  LibKind is the library's DETAILS table as       *)
(* observed on the running code; TLC checks that the procedure with that   *)
(* table has the same outcome as the kernel's own default action (C16).    *)
(***************************************************************************)
EXTENDS Kernel, TLC

CONSTANTS LibKind,     \* [known signal -> "term" | "stop" | "ignore"]: the code's table
          Unblocks     \* "this" (the code): exactly the signal is unblocked before the re-raise
                       \* | "all" (the whole mask is cleared) | "none"

Known == DOMAIN LibKind
Numbers == 0..66
\* "other_pending": another terminating signal is blocked and pending in the calling thread
Contexts == {"normal", "masked", "handler", "other_pending"}

VARIABLES sig, ctx, pc, disp, blocked, outcome
vars == <<sig, ctx, pc, disp, blocked, outcome>>

Init ==
    /\ sig \in Numbers /\ ctx \in Contexts
    /\ pc = "start"
    /\ disp = (IF ctx = "handler" THEN "lib" ELSE "dfl")
    /\ blocked = (ctx \in {"masked", "handler"})
    /\ outcome = "running"

\* raise(s) with the default disposition and s unblocked: the kernel acts at once.
Raise(s) == IF KernelDefault(s) = "stop" THEN "stopped"
            ELSE IF KernelDefault(s) = "term" THEN "killed_by_signal" ELSE "continues"

Start ==
    /\ pc = "start"
    /\ IF sig \in {SIGKILL, SIGSTOP}                    \* :177 raise directly, cannot be blocked
       THEN /\ outcome' = Raise(sig) /\ pc' = "done" /\ UNCHANGED <<disp, blocked>>
       ELSE IF sig \notin Known                          \* :185 EINVAL
       THEN /\ outcome' = "error" /\ pc' = "done" /\ UNCHANGED <<disp, blocked>>
       ELSE CASE LibKind[sig] = "ignore" -> /\ outcome' = "continues" /\ pc' = "done"
                                             /\ UNCHANGED <<disp, blocked>>
              [] LibKind[sig] = "stop" -> /\ outcome' = Raise(SIGSTOP) /\ pc' = "done"   \* :189
                                           /\ UNCHANGED <<disp, blocked>>
              [] LibKind[sig] = "term" -> /\ pc' = "restore" /\ UNCHANGED <<outcome, disp, blocked>>
    /\ UNCHANGED <<sig, ctx>>

Restore ==                                               \* :191 restore_default
    /\ pc = "restore" /\ disp' = "dfl" /\ pc' = "unblock"
    /\ UNCHANGED <<sig, ctx, blocked, outcome>>

Unblock ==                                               \* :231 sigprocmask(SIG_UNBLOCK)
    /\ pc = "unblock" /\ blocked' = (IF Unblocks # "none" THEN FALSE ELSE blocked)
    \* clearing the whole mask delivers whatever else was pending, first
    /\ IF Unblocks = "all" /\ ctx = "other_pending"
       THEN outcome' = "killed_by_another_signal" /\ pc' = "done"
       ELSE pc' = "reraise" /\ UNCHANGED outcome
    /\ UNCHANGED <<sig, ctx, disp>>

ReRaise ==                                               \* :233 raise(signal), :237 abort()
    /\ pc = "reraise"
    /\ outcome' = IF ~blocked /\ disp = "dfl" /\ KernelDefault(sig) = "term"
                  THEN "killed_by_signal" ELSE "killed_by_abort"
    /\ pc' = "done"
    /\ UNCHANGED <<sig, ctx, disp, blocked>>

Next == Start \/ Restore \/ Unblock \/ ReRaise \/ (pc = "done" /\ UNCHANGED vars)
Spec == Init /\ [][Next]_vars

\* What the kernel's own default action would have done.
Native(s) == IF KernelDefault(s) = "term" THEN "killed_by_signal"
             ELSE IF KernelDefault(s) = "stop" THEN "stopped" ELSE "continues"

\* C16
EmulationMatchesKernel ==
    pc = "done" =>
        IF sig \in Known \/ sig \in {SIGKILL, SIGSTOP} THEN outcome = Native(sig)
        ELSE outcome = "error"
=============================================================================
