----------------------------- MODULE ChannelProof -----------------------------
(***************************************************************************)
(* C08 / C06 at the level of index ownership (channel.rs:13-22: "an index   *)
(* is in exactly one of: empty queue, full queue, one in-flight operation"), *)
(* machine-checked by TLAPS for ANY number of operations - on any threads,   *)
(* nested in each other in signal handlers or not; at this level an          *)
(* operation is just an operation - and any set of slot indices.            *)
(*                                                                         *)
(* A queue is the SET of indices it holds (FIFO order plays no role for      *)
(* ownership; it is Channel.tla's and ChannelAbs's business).  One action    *)
(* per successful queue exchange (the CAS loops of dequeue / enqueue retry   *)
(* until one succeeds) and per cell access:                                  *)
(*   send:  S_Deq (take an index from `empty`, or drop the value),           *)
(*          S_Write (fill the cell), S_Enq (put the index into `full`)       *)
(*   recv:  R_Deq (take an index from `full`, or report empty),              *)
(*          R_Take (take the cell), R_Enq (return the index to `empty`)      *)
(* The two panics of the code are "no room in the queue" at an enqueue       *)
(* (channel.rs:66: `expect("No empty slot available")` - the queue has as    *)
(* many positions as there are indices) and an empty cell at R_Take          *)
(* (:150 `expect("Full slot with nothing in it")`); overwriting a full cell  *)
(* at S_Write would lose a value (C06).  Theorem: none of them can happen.   *)
(***************************************************************************)
(* This module adds the VALUES: the value of send operation o is o itself; a  *)
(* cell holds a value or Nothing; a receive operation ends with the value it *)
(* took.  Theorem: no value is ever in two places - not in two cells, not    *)
(* handed to two receivers, not both in a cell and handed out, never handed  *)
(* out while its sender still has it or has discarded it (C06: nothing       *)
(* invented or duplicated; C07: every value has exactly one fate).           *)
EXTENDS TLAPS

CONSTANTS Ops, Indices, Senders, Nothing
ASSUME NothingNotOp == Nothing \notin Ops

VARIABLES emptyQ, fullQ, pc, idx, cell, got

vars == <<emptyQ, fullQ, pc, idx, cell, got>>

Pcs == {"start", "s_hold", "s_written", "r_hold", "r_taken", "done", "dropped", "none"}
Holding == {"s_hold", "s_written", "r_hold", "r_taken"}

Init ==
    /\ emptyQ = Indices /\ fullQ = {}
    /\ pc = [o \in Ops |-> "start"]
    /\ idx \in [Ops -> Indices]
    /\ cell = [i \in Indices |-> Nothing]
    /\ got = [o \in Ops |-> Nothing]

S_Deq(o) ==
    /\ o \in Senders /\ pc[o] = "start"
    /\ \/ /\ emptyQ = {}
          /\ pc' = [pc EXCEPT ![o] = "dropped"]
          /\ UNCHANGED <<emptyQ, fullQ, idx, cell, got>>
       \/ \E i \in emptyQ :
            /\ emptyQ' = emptyQ \ {i}
            /\ idx' = [idx EXCEPT ![o] = i]
            /\ pc' = [pc EXCEPT ![o] = "s_hold"]
            /\ UNCHANGED <<fullQ, cell, got>>

S_Write(o) ==
    /\ pc[o] = "s_hold"
    /\ cell' = [cell EXCEPT ![idx[o]] = o]
    /\ pc' = [pc EXCEPT ![o] = "s_written"]
    /\ UNCHANGED <<emptyQ, fullQ, idx, got>>

S_Enq(o) ==
    /\ pc[o] = "s_written"
    /\ fullQ' = fullQ \cup {idx[o]}
    /\ pc' = [pc EXCEPT ![o] = "done"]
    /\ UNCHANGED <<emptyQ, idx, cell, got>>

R_Deq(o) ==
    /\ o \notin Senders /\ pc[o] = "start"
    /\ \/ /\ fullQ = {}
          /\ pc' = [pc EXCEPT ![o] = "none"]
          /\ UNCHANGED <<emptyQ, fullQ, idx, cell, got>>
       \/ \E i \in fullQ :
            /\ fullQ' = fullQ \ {i}
            /\ idx' = [idx EXCEPT ![o] = i]
            /\ pc' = [pc EXCEPT ![o] = "r_hold"]
            /\ UNCHANGED <<emptyQ, cell, got>>

R_Take(o) ==
    /\ pc[o] = "r_hold"
    /\ got' = [got EXCEPT ![o] = cell[idx[o]]]
    /\ cell' = [cell EXCEPT ![idx[o]] = Nothing]
    /\ pc' = [pc EXCEPT ![o] = "r_taken"]
    /\ UNCHANGED <<emptyQ, fullQ, idx>>

R_Enq(o) ==
    /\ pc[o] = "r_taken"
    /\ emptyQ' = emptyQ \cup {idx[o]}
    /\ pc' = [pc EXCEPT ![o] = "done"]
    /\ UNCHANGED <<fullQ, idx, cell, got>>

Next == \E o \in Ops : S_Deq(o) \/ S_Write(o) \/ S_Enq(o) \/ R_Deq(o) \/ R_Take(o) \/ R_Enq(o)
Spec == Init /\ [][Next]_vars

----------------------------------------------------------------------------
\* what the code's two `expect`s and the no-overwrite rule need, at the moment they are evaluated
NoPanic ==
    \A o \in Ops :
        /\ pc[o] = "s_written" => fullQ # Indices          \* room for the index in `full`
        /\ pc[o] = "r_taken" => emptyQ # Indices           \* room for the index in `empty`
        /\ pc[o] = "r_hold" => cell[idx[o]] # Nothing      \* "Full slot with nothing in it" cannot be
        /\ pc[o] = "s_hold" => cell[idx[o]] = Nothing      \* a full cell is never overwritten

\* where the value of sender v can be
InCell(v, i) == cell[i] = v
Handed(v, r) == got[r] = v
OneFate ==
    \A v \in Senders :
        /\ \A i, j \in Indices : (InCell(v, i) /\ InCell(v, j)) => i = j
        /\ \A r, q \in Ops : (Handed(v, r) /\ Handed(v, q)) => r = q
        /\ \A i \in Indices, r \in Ops : ~(InCell(v, i) /\ Handed(v, r))
        /\ (\E i \in Indices : InCell(v, i)) \/ (\E r \in Ops : Handed(v, r))
               => pc[v] \in {"s_written", "done"}
NothingInvented ==
    /\ \A i \in Indices : cell[i] # Nothing => cell[i] \in Senders
    /\ \A r \in Ops : got[r] # Nothing => got[r] \in Senders /\ r \notin Senders

TypeOK ==
    /\ emptyQ \in SUBSET Indices /\ fullQ \in SUBSET Indices
    /\ pc \in [Ops -> Pcs] /\ idx \in [Ops -> Indices]
    /\ cell \in [Indices -> Senders \cup {Nothing}]
    /\ got \in [Ops -> Senders \cup {Nothing}]
    /\ Senders \subseteq Ops

\* an index is in at most one place
Partition ==
    /\ emptyQ \cap fullQ = {}
    /\ \A o \in Ops : pc[o] \in Holding => idx[o] \notin emptyQ /\ idx[o] \notin fullQ
    /\ \A o, q \in Ops : (pc[o] \in Holding /\ pc[q] \in Holding /\ o # q) => idx[o] # idx[q]

\* and the cell of an index is full exactly where the protocol says so
Cells ==
    /\ \A i \in fullQ : cell[i] # Nothing
    /\ \A i \in emptyQ : cell[i] = Nothing
    /\ \A o \in Ops :
         /\ pc[o] \in {"s_written", "r_hold"} => cell[idx[o]] # Nothing
         /\ pc[o] \in {"s_hold", "r_taken"} => cell[idx[o]] = Nothing

\* a value in a cell or in a receiver's hands was written by its sender, once
Values ==
    /\ \A o \in Ops : o \notin Senders => pc[o] \in {"start", "r_hold", "r_taken", "done", "none"}
    /\ \A o \in Senders : pc[o] \in {"start", "s_hold", "s_written", "done", "dropped"} /\ got[o] = Nothing
    /\ \A o \in Ops : got[o] # Nothing => pc[o] \in {"r_taken", "done"}
    /\ \A v \in Senders : pc[v] = "s_written" => cell[idx[v]] = v
    /\ OneFate /\ NothingInvented

IndInv == TypeOK /\ Partition /\ Cells /\ Values

ASSUME SendersAreOps == Senders \subseteq Ops

THEOREM InitInv == Init => IndInv
  BY NothingNotOp, SendersAreOps DEF Init, IndInv, TypeOK, Partition, Cells, Values, OneFate, NothingInvented,
     InCell, Handed, Pcs, Holding

THEOREM InvNoPanic == IndInv => NoPanic /\ OneFate /\ NothingInvented
  BY DEF IndInv, TypeOK, Partition, Cells, Values, NoPanic, Holding, Pcs

THEOREM Step == IndInv /\ [Next]_vars => IndInv'
<1> SUFFICES ASSUME IndInv, [Next]_vars PROVE IndInv'
  OBVIOUS
<1> USE NothingNotOp, SendersAreOps DEF IndInv, TypeOK, Partition, Cells, Values, OneFate, NothingInvented, InCell, Handed, Pcs, Holding
<1>1. ASSUME NEW o \in Ops, S_Deq(o) PROVE IndInv'
  BY <1>1, SMTT(120) DEF S_Deq
<1>2. ASSUME NEW o \in Ops, S_Write(o) PROVE IndInv'
  BY <1>2 DEF S_Write
<1>3. ASSUME NEW o \in Ops, S_Enq(o) PROVE IndInv'
  BY <1>3 DEF S_Enq
<1>4. ASSUME NEW o \in Ops, R_Deq(o) PROVE IndInv'
  BY <1>4 DEF R_Deq
<1>5. ASSUME NEW o \in Ops, R_Take(o) PROVE IndInv'
  BY <1>5 DEF R_Take
<1>6. ASSUME NEW o \in Ops, R_Enq(o) PROVE IndInv'
  BY <1>6 DEF R_Enq
<1>7. CASE UNCHANGED vars
  BY <1>7 DEF vars
<1> QED
  BY <1>1, <1>2, <1>3, <1>4, <1>5, <1>6, <1>7 DEF Next

THEOREM Safety == Spec => [](NoPanic /\ OneFate /\ NothingInvented)
<1>1. Spec => []IndInv
  BY InitInv, Step, PTL DEF Spec
<1> QED
  BY <1>1, InvNoPanic, PTL
=============================================================================
