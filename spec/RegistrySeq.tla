----------------------------- MODULE RegistrySeq -----------------------------
(***************************************************************************)
(* C05, sequential reading: the registry as independent per-signal ordered *)
(* multisets with unique ids (lib.rs:583-680).  A history is a sequence of *)
(*   <<"R", sig>>  register an action        -> 1                          *)
(*   <<"U", k>>    unregister the k-th registration of the history         *)
(*                 -> 1 iff it is still registered, -1 if there is none    *)
(*   <<"S", sig>>  unregister_signal(sig)    -> 1 iff it removed something *)
(*   <<"D", sig>>  deliver sig               -> number of actions that ran *)
(*   <<"H", sig>> / <<"G", sig>>  other code installs a handler (one-shot / *)
(*                 SA_NODEFER | SA_ONSTACK | full mask)            -> 1      *)
(*   <<"Q", sig>>  who handles sig now: 1 = the library's dispatcher with    *)
(*                 SA_RESTART | SA_SIGINFO (and not one-shot) iff the library *)
(*                 ever took the signal over, else 0 (lib.rs:149-163: the    *)
(*                 take-over is for the rest of the process)                 *)
(* Expect(ops) is what an observer must see, from the very first call of a *)
(* process on (nothing has initialised the registry).                      *)
(***************************************************************************)
EXTENDS Integers, Sequences, FiniteSets

\* st = [regs: Seq of [sig, live]], the registrations of the history in order
RECURSIVE Run(_, _)
Run(ops, regs) ==
    IF ops = << >> THEN << >>
    ELSE LET o == Head(ops)
             k == o[1]
             n == o[2]
             live(sig) == {i \in 1..Len(regs) : regs[i].sig = sig /\ regs[i].live} IN
         CASE k = "R" -> <<<<"R", n, 1>>>> \o Run(Tail(ops), Append(regs, [sig |-> n, live |-> TRUE]))
           [] k = "U" -> IF n \in 1..Len(regs)
                         THEN <<<<"U", n, IF regs[n].live THEN 1 ELSE 0>>>> \o
                              Run(Tail(ops), [regs EXCEPT ![n].live = FALSE])
                         ELSE <<<<"U", n, -1>>>> \o Run(Tail(ops), regs)
           [] k = "S" -> <<<<"S", n, IF live(n) # {} THEN 1 ELSE 0>>>> \o
                         Run(Tail(ops), [i \in 1..Len(regs) |->
                                           IF regs[i].sig = n THEN [regs[i] EXCEPT !.live = FALSE]
                                           ELSE regs[i]])
           [] k \in {"H", "G"} -> <<<<k, n, 1>>>> \o Run(Tail(ops), regs)
           [] k = "Q" -> <<<<"Q", n, IF \E i \in 1..Len(regs) : regs[i].sig = n THEN 1 ELSE 0>>>> \o
                         Run(Tail(ops), regs)
           [] OTHER -> <<<<"D", n, Cardinality(live(n))>>>> \o Run(Tail(ops), regs)

Expect(ops) == Run(ops, << >>)
=============================================================================
