------------------------------ MODULE TraceFresh ------------------------------
(* C05: sequential histories run in a fresh process, against RegistrySeq. *)
EXTENDS RegistrySeq, Integers, TLC, Json, IOUtils

Rec == ndJsonDeserialize(IOEnv.TRACE)
VARIABLES l, viol
tvars == <<l, viol>>
R == Rec[l]
Flg(c, s) == IF c THEN {s} ELSE {}

TInit == l = 1 /\ viol = {}

TProbe ==
    /\ l <= Len(Rec) /\ R.e = "fresh" /\ l' = l + 1
    /\ IF R.status # "exited:0"
       THEN viol' = viol \cup {"process_died"}
       ELSE LET want == Expect(R.ops) IN
            viol' = viol
              \cup Flg(Len(R.r.steps) # Len(want), "history_did_not_complete")
              \cup Flg(\E i \in 1..Len(R.r.steps) : R.r.steps[i][3] = -99, "operation_panicked")
              \cup Flg(Len(R.r.steps) = Len(want) /\ R.r.steps # want, "results_differ_from_the_model")

TraceSpec == TInit /\ [][TProbe]_tvars
TraceAccepted ==
    LET d == TLCGet("stats").diameter IN
    IF d - 1 = Len(Rec) THEN TRUE ELSE Print(<<"TRACE_REJECTED", d, Rec[d]>>, FALSE)
V_C05 == viol = {}
=============================================================================
