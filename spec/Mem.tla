-------------------------------- MODULE Mem --------------------------------
(***************************************************************************)
(* Atomics with declared orderings: a view-based operational semantics     *)
(* (release/acquire + SC, promise-free; no load buffering).                *)
(*                                                                         *)
(* Every atomic location l has a modification order hist[l], a sequence of *)
(* messages [val, view]; a timestamp is an index into it.  Every thread t  *)
(* has a view tv[t]: the lowest timestamp per location it may still read.  *)
(* scv[l] is the timestamp of the latest SeqCst write (store or RMW) to l  *)
(* in execution order.  A SeqCst load is an acquire load that may not read *)
(* anything older than scv[l]; a SeqCst store/RMW is a release(-acquire)   *)
(* write that advances scv[l].  The order in which the model executes the  *)
(* SeqCst operations is the total order S of C11: a SeqCst load reads the  *)
(* last SeqCst write before it in S or a later write, never an earlier     *)
(* one.  Note that a SeqCst ACCESS is not a fence: it does not publish the *)
(* thread's view of other locations to later SeqCst operations (RC11), so  *)
(* mixing SeqCst with weaker orderings on a Dekker-style pair is unsafe    *)
(* here exactly as it is in C11.                                           *)
(*                                                                         *)
(* Soundness direction: every behaviour this module admits is allowed by   *)
(* the C11/Rust model (stores always append to the modification order,     *)
(* RMWs read the latest message, SeqCst is over-approximated as fences),   *)
(* so a counterexample found here is a legal execution of the real         *)
(* program.  What it cannot show: load-buffering shapes and stores placed  *)
(* in the middle of the modification order.                                *)
(*                                                                         *)
(* Non-atomic cells (payload slots, heap boxes) carry only a version       *)
(* counter cver[c], bumped by every write-like access; an access by a      *)
(* thread whose view of the cell is older than the counter is a data race. *)
(***************************************************************************)
EXTENDS Naturals, Sequences

CONSTANTS Locs,        \* atomic locations (integers)
          Cells,       \* non-atomic cells (integers, disjoint from Locs)
          MThreads,    \* thread ids
          InitVal(_)   \* initial value of each atomic location

VARIABLES hist, tv, scv, cver, race

memvars == <<hist, tv, scv, cver, race>>

\* Pseudo-location counting the read-only cell accesses of thread t; cver of a cell records, per
\* reading thread, the value of that counter at its last read, so that a later write-like access
\* can tell whether it is ordered after every earlier read (read -> write races).
RLoc(t) == 100 + t
AllLocs == Locs \cup Cells \cup {RLoc(t) : t \in MThreads}

ZeroView == [l \in AllLocs |-> IF l \in Locs THEN 1 ELSE 0]

Join(a, b) == [l \in AllLocs |-> IF a[l] >= b[l] THEN a[l] ELSE b[l]]

IsAcq(o) == o \in {"Acquire", "AcqRel", "SeqCst"}
IsRel(o) == o \in {"Release", "AcqRel", "SeqCst"}
Orderings == {"Relaxed", "Acquire", "Release", "AcqRel", "SeqCst"}

MemInit ==
    /\ hist = [l \in Locs |-> << [val |-> InitVal(l), view |-> ZeroView] >>]
    /\ tv = [t \in MThreads |-> ZeroView]
    /\ scv = ZeroView
    /\ cver = [c \in Cells |-> [w |-> 0, r |-> [t \in MThreads |-> 0]]]
    /\ race = FALSE

MemReset ==
    /\ hist' = [l \in Locs |-> << [val |-> InitVal(l), view |-> ZeroView] >>]
    /\ tv' = [t \in MThreads |-> ZeroView]
    /\ scv' = ZeroView
    /\ cver' = [c \in Cells |-> [w |-> 0, r |-> [t \in MThreads |-> 0]]]
    /\ race' = FALSE

Base(t, ord) == tv[t]

Max(a, b) == IF a >= b THEN a ELSE b

\* Timestamps a load of l by t with ordering ord may read.
ReadTs(t, l, ord) ==
    (IF ord = "SeqCst" THEN Max(tv[t][l], scv[l]) ELSE tv[t][l]) .. Len(hist[l])

ValAt(l, ts) == hist[l][ts].val
Latest(l) == hist[l][Len(hist[l])].val

AfterRead(t, l, ord, ts) ==
    LET b == [Base(t, ord) EXCEPT ![l] = ts]
    IN  IF IsAcq(ord) THEN Join(b, hist[l][ts].view) ELSE b

\* A load (also a failed compare-exchange) reading timestamp ts.
MRead(t, l, ord, ts) ==
    /\ ts \in ReadTs(t, l, ord)
    /\ tv' = [tv EXCEPT ![t] = AfterRead(t, l, ord, ts)]
    /\ UNCHANGED <<hist, scv, cver, race>>

\* A read-modify-write: reads the latest message, appends a new one that
\* continues the release sequence of the message it read.
MRmw(t, l, ord, newval) ==
    LET n    == Len(hist[l])
        prev == hist[l][n]
        b0   == [Base(t, ord) EXCEPT ![l] = n + 1]
        b1   == IF IsAcq(ord) THEN Join(b0, prev.view) ELSE b0
        mv   == IF IsRel(ord) THEN Join(b1, prev.view)
                              ELSE [prev.view EXCEPT ![l] = n + 1]
    IN  /\ hist' = [hist EXCEPT ![l] = Append(@, [val |-> newval, view |-> mv])]
        /\ tv' = [tv EXCEPT ![t] = b1]
        /\ scv' = IF ord = "SeqCst" THEN [scv EXCEPT ![l] = n + 1] ELSE scv
        /\ UNCHANGED <<cver, race>>

\* A plain store: appended to the modification order.
MStore(t, l, ord, v) ==
    LET n  == Len(hist[l])
        b0 == [Base(t, ord) EXCEPT ![l] = n + 1]
        mv == IF IsRel(ord) THEN b0 ELSE [ZeroView EXCEPT ![l] = n + 1]
    IN  /\ hist' = [hist EXCEPT ![l] = Append(@, [val |-> v, view |-> mv])]
        /\ tv' = [tv EXCEPT ![t] = b0]
        /\ scv' = IF ord = "SeqCst" THEN [scv EXCEPT ![l] = n + 1] ELSE scv
        /\ UNCHANGED <<cver, race>>

\* A write-like access (write, take, alloc, free) to a non-atomic cell: must be ordered after the
\* last write-like access and after every earlier read by another thread.
MCellWrite(t, c) ==
    /\ race' = (race \/ tv[t][c] < cver[c].w
                     \/ \E u \in MThreads \ {t} : tv[t][RLoc(u)] < cver[c].r[u])
    /\ cver' = [cver EXCEPT ![c].w = @ + 1]
    /\ tv' = [tv EXCEPT ![t] = [@ EXCEPT ![c] = cver[c].w + 1]]
    /\ UNCHANGED <<hist, scv>>

\* A read-only access to a non-atomic cell: must be ordered after the last write-like access.
MCellRead(t, c) ==
    /\ race' = (race \/ tv[t][c] < cver[c].w)
    /\ tv' = [tv EXCEPT ![t] = [@ EXCEPT ![RLoc(t)] = @ + 1]]
    /\ cver' = [cver EXCEPT ![c].r[t] = tv[t][RLoc(t)] + 1]
    /\ UNCHANGED <<hist, scv>>

NoRace == ~race
=============================================================================
