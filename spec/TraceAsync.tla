----------------------------- MODULE TraceAsync -----------------------------
(* Validates recorded operation histories of the real runtime adapters     *)
(* (harness_async: tokio, async-std, mio 0.7/0.8/1.0) against the monitor   *)
(* of AsyncOps.tla.  One `reset` line starts a fresh process.               *)
EXTENDS AsyncOps, Json, IOUtils

Rec == ndJsonDeserialize(IOEnv.TRACE)

VARIABLES l, mio

IsEvent(e) == l <= Len(Rec) /\ Rec[l].e = e /\ l' = l + 1
R == Rec[l]
ToSet(q) == {q[i] : i \in 1..Len(q)}

TInit == Init /\ l = 1 /\ mio = FALSE

TReset ==
    /\ IsEvent("reset")
    /\ mio' = (R.adapter \in {"mio10", "mio08", "mio07"})
    /\ w' = Watched0 /\ flags' = {} /\ closed' = FALSE /\ parked' = FALSE /\ edge' = FALSE /\ ended' = FALSE
    /\ UNCHANGED <<viol, ivars>>

TOp ==
    /\ IsEvent("op")
    /\ UNCHANGED <<mio, ivars>>
    /\ CASE R.op = "P" -> MonPoll(R.res, R.n)
         [] R.op = "B" -> IF R.res = "batch" THEN MonBatch(ToSet(R.sigs))
                          ELSE MonPoll("panic", 0)
         [] R.op = "R" -> MonRaise(R.arg)
         [] R.op = "C" -> MonClose
         [] R.op = "A" -> MonAdd(R.arg, R.res = "ok")
         [] R.op = "T" -> IF mio THEN MonTurnMio(R.n) ELSE MonTurnStream(R.n)

TEnd ==
    /\ IsEvent("end")
    /\ viol' = viol \cup (IF R.status = "exited:0" THEN {}
                          ELSE IF R.status = "signaled:14" THEN {"probe_hung"} ELSE {"probe_died"})
    /\ UNCHANGED <<w, flags, closed, parked, edge, ended, mio, ivars>>

TNext == TReset \/ TOp \/ TEnd
TraceSpec == TInit /\ [][TNext]_<<vars, l, mio>>

TraceAccepted ==
    LET d == TLCGet("stats").diameter IN
    IF d - 1 = Len(Rec) THEN TRUE
    ELSE Print(<<"TRACE_REJECTED", d, Rec[d]>>, FALSE)
=============================================================================
