----------------------------- MODULE TraceChannel -----------------------------
(***************************************************************************)
(* Fine-grained trace validation of the real Channel against Channel.tla:  *)
(* every shim operation (with the raw 16-bit queue words it saw and wrote) *)
(* and every cell access must be the next action of the fine model.        *)
(***************************************************************************)
EXTENDS Channel, Json, IOUtils

Rec == ndJsonDeserialize(IOEnv.TRACE)

VARIABLE l

R == Rec[l]
IsEvent(e) == l <= Len(Rec) /\ R.e = e /\ l' = l + 1
IsOp(k, loc) == IsEvent("op") /\ R.k = k /\ R.l = loc
NewTop(t) == stack'[t][Len(stack[t])]
QLoc(name) == IF name = "empty" THEN EMPTYQ ELSE FULLQ
Ctl == R.t = 100   \* controller thread: set-up / tear-down, not modelled

Reset ==
    /\ M!MemReset
    /\ stack' = [t \in Threads |-> << First(t) >>]
    /\ todo' = [t \in Threads |-> (IF t \in Senders THEN Sends ELSE Recvs) - 1]
    /\ cell' = [i \in 1..SLOTS |-> IF i <= Prefill THEN 100 + i ELSE 0]
    /\ nextVal' = 1
    /\ sent' = [k \in 1..Prefill |-> 100 + k]
    /\ got' = << >>
    /\ fate' = [v \in ValIds |-> IF v > 100 THEN "cell" ELSE "none"]
    /\ ndeliv' = 0
    /\ nspur' = 0
    /\ frozen' = 0
    /\ fsteps' = 0
    /\ fmark' = <<0, 0>>
    /\ bad' = {}

TInit == Init /\ l = 1
TReset == IsEvent("reset") /\ Reset

TCtl == l <= Len(Rec) /\ Ctl /\ R.e # "reset" /\ l' = l + 1 /\ UNCHANGED vars

TCallSend == IsEvent("call_send") /\ ~Ctl /\ nextVal = R.v /\ Step(R.t) /\ NewTop(R.t).val = R.v
             /\ Top(R.t).val = 0

TLoad == /\ IsEvent("op") /\ ~Ctl /\ R.k = "load"
         /\ R.o = (CASE Top(R.t).pc = "s_ld" -> OrdSDeqLoad [] Top(R.t).pc = "s_ld2" -> OrdSEnqLoad
                   [] Top(R.t).pc = "r_ld" -> OrdRDeqLoad [] OTHER -> OrdREnqLoad)
         /\ Top(R.t).pc \in {"s_ld", "s_ld2", "r_ld", "r_ld2"} /\ Top(R.t).val + 1 > 0
         /\ (Top(R.t).pc = "s_ld" => Top(R.t).val # 0)
         /\ (Top(R.t).pc \in {"s_ld", "r_ld2"}) = (R.l = "empty")
         /\ Step(R.t) /\ NewTop(R.t).cur = R.old

TCasOk == /\ IsEvent("op") /\ ~Ctl /\ R.k = "cas_weak" /\ R.ok
          /\ Top(R.t).cur = R.a /\ M!Latest(QLoc(R.l)) = R.old
          /\ (Top(R.t).pc \in {"s_deq", "r_enq"}) = (R.l = "empty")
          /\ R.o = (CASE Top(R.t).pc = "s_deq" -> OrdSDeqOk [] Top(R.t).pc = "s_enq" -> OrdSEnqOk
                    [] Top(R.t).pc = "r_deq" -> OrdRDeqOk [] OTHER -> OrdREnqOk)
          /\ (S_DeqOk(R.t) \/ S_EnqOk(R.t) \/ R_DeqOk(R.t) \/ R_EnqOk(R.t))
          /\ hist'[QLoc(R.l)][Len(hist'[QLoc(R.l)])].val = R.new

TCasFail == /\ IsEvent("op") /\ ~Ctl /\ R.k = "cas_weak" /\ ~R.ok
            /\ Top(R.t).cur = R.a
            /\ (Top(R.t).pc \in {"s_deq", "r_enq"}) = (R.l = "empty")
            /\ R.fo = (CASE Top(R.t).pc = "s_deq" -> OrdSDeqFail [] Top(R.t).pc = "s_enq" -> OrdSEnqFail
                       [] Top(R.t).pc = "r_deq" -> OrdRDeqFail [] OTHER -> OrdREnqFail)
            /\ (S_DeqFail(R.t) \/ S_EnqFail(R.t) \/ R_DeqFail(R.t) \/ R_EnqFail(R.t))
            /\ NewTop(R.t).cur = R.old
  
TCellWrite == IsEvent("cell_write") /\ ~Ctl /\ Top(R.t).idx = R.i /\ S_Write(R.t)
    TCellTake == IsEvent("cell_take") /\ ~Ctl /\ Top(R.t).idx = R.i /\ R_Take(R.t)
   
\* A send returns: either it found the channel full (then this is where the model drops the
\* value) or its frame already finished with the successful enqueue.
TRetSend == /\ IsEvent("ret_send") /\ ~Ctl
            /\ IF Top(R.t).pc = "s_deq" /\ Top(R.t).val = R.v
               THEN S_Full(R.t)
               ELSE UNCHANGED vars
TRetRecv == /\ IsEvent("ret_recv") /\ ~Ctl
            /\ IF R.v = 0
               THEN R_Empty(R.t)
               ELSE got # << >> /\ got[Len(got)] + 0 >= 0 /\ UNCHANGED vars

TDeliver == IsEvent("deliver") /\ Deliver(R.t)
TSkip == /\ l <= Len(Rec) /\ ~Ctl /\ R.e \in {"call_recv", "drop", "return", "done", "chan_drop"}
         /\ l' = l + 1 /\ UNCHANGED vars

TNext == TReset \/ TCtl \/ TCallSend \/ TLoad \/ TCasOk \/ TCasFail \/ TCellWrite \/ TCellTake
         \/ TRetSend \/ TRetRecv \/ TDeliver \/ TSkip

TraceSpec == TInit /\ [][TNext]_<<vars, l>>

TraceAccepted ==
    LET d == TLCGet("stats").diameter IN
    IF d - 1 = Len(Rec) THEN TRUE
    ELSE Print(<<"TRACE_REJECTED", d, Rec[d]>>, FALSE)
=============================================================================
