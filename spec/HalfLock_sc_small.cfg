SPECIFICATION Spec
CONSTANTS
  Readers = {1, 2}
  Writers = {3}
  Sections = 1
  Stores = 2
  DeliverOn = {3}
  MaxNested = 1
  MaxDeliveries = 1
  ReadOrder = "count_then_ptr"
  Barrier = "both"
  Sticky = TRUE
  OrdRGen = "SeqCst"
  OrdRInc = "SeqCst"
  OrdRPtr = "SeqCst"
  OrdRDec = "SeqCst"
  OrdWPtr = "SeqCst"
  OrdWSwap = "SeqCst"
  OrdWSeen = "SeqCst"
  OrdWFlip = "SeqCst"
INVARIANTS NoUseAfterFree FreeOnce NoRace CurrentLive CountersExact ReaderNeverBlocked
