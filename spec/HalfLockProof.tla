---------------------------- MODULE HalfLockProof ----------------------------
(***************************************************************************)
(* The safety argument of half_lock.rs, machine-checked by TLAPS for ANY    *)
(* number of readers, any set of snapshot addresses (reused after free) and *)
(* executions of any length.                                                *)
(*                                                                         *)
(* Same steps as HalfLockSC.tla (read order "count_then_ptr", barrier over  *)
(* both slots), with one abstraction: a reader slot is the SET of read      *)
(* sections that have incremented it and not yet decremented it.  The code  *)
(* only ever tests a counter for zero (half_lock.rs:160-164), each section  *)
(* increments once and decrements once, so "counter = 0" is "set = {}";     *)
(* HalfLockSC.tla's CountersExact is exactly this correspondence.           *)
(***************************************************************************)
EXTENDS Integers, TLAPS

CONSTANTS Readers, Ptrs

VARIABLES gen, inn, ptr, freed, rpc, rgen, rptr, wpc, wold, seen

vars == <<gen, inn, ptr, freed, rpc, rgen, rptr, wpc, wold, seen>>

Slots == {0, 1}
RPcs == {"idle", "g", "i", "p"}
WPcs == {"idle", "pre0", "pre1", "flip", "loop", "upd0", "upd1", "free"}
Waiting == {"pre0", "pre1", "flip", "loop", "upd0", "upd1"}
InBarrier == wpc \in Waiting \cup {"free"}

Init ==
    /\ gen = 0 /\ inn = [s \in Slots |-> {}] /\ ptr \in Ptrs /\ freed = {}
    /\ rpc = [r \in Readers |-> "idle"] /\ rgen = [r \in Readers |-> 0]
    /\ rptr = [r \in Readers |-> ptr]
    /\ wpc = "idle" /\ wold = ptr /\ seen = [s \in Slots |-> FALSE]

R_Gen(r) ==
    /\ rpc[r] = "idle"
    /\ rgen' = [rgen EXCEPT ![r] = gen]
    /\ rpc' = [rpc EXCEPT ![r] = "g"]
    /\ UNCHANGED <<gen, inn, ptr, freed, rptr, wpc, wold, seen>>

R_Inc(r) ==
    /\ rpc[r] = "g"
    /\ rpc' = [rpc EXCEPT ![r] = "i"]
    /\ inn' = [inn EXCEPT ![rgen[r]] = @ \cup {r}]
    /\ UNCHANGED <<gen, ptr, freed, rgen, rptr, wpc, wold, seen>>

R_Ptr(r) ==
    /\ rpc[r] = "i"
    /\ rpc' = [rpc EXCEPT ![r] = "p"]
    /\ rptr' = [rptr EXCEPT ![r] = ptr]
    /\ UNCHANGED <<gen, inn, ptr, freed, rgen, wpc, wold, seen>>

R_Dec(r) ==
    /\ rpc[r] = "p"
    /\ inn' = [inn EXCEPT ![rgen[r]] = @ \ {r}]
    /\ rpc' = [rpc EXCEPT ![r] = "idle"]
    /\ UNCHANGED <<gen, ptr, freed, rgen, rptr, wpc, wold, seen>>

Allocated == {ptr} \cup (IF InBarrier THEN {wold} ELSE {})

W_Swap ==
    /\ wpc = "idle"
    /\ \E p \in Ptrs \ Allocated :
         /\ ptr' = p
         /\ freed' = freed \ {p}
    /\ wold' = ptr
    /\ seen' = [s \in Slots |-> FALSE]
    /\ wpc' = "pre0"
    /\ UNCHANGED <<gen, inn, rpc, rgen, rptr>>

See(s) == seen' = [seen EXCEPT ![s] = @ \/ inn[s] = {}]

W_Pre ==
    /\ \/ wpc = "pre0" /\ See(0) /\ wpc' = "pre1"
       \/ wpc = "pre1" /\ See(1) /\ wpc' = "flip"
    /\ UNCHANGED <<gen, inn, ptr, freed, rpc, rgen, rptr, wold>>

W_Flip ==
    /\ wpc = "flip"
    /\ gen' = 1 - gen
    /\ wpc' = "loop"
    /\ UNCHANGED <<inn, ptr, freed, rpc, rgen, rptr, wold, seen>>

W_Loop ==
    /\ \/ wpc = "loop" /\ seen[0] /\ seen[1] /\ wpc' = "free" /\ UNCHANGED seen
       \/ wpc = "loop" /\ ~(seen[0] /\ seen[1]) /\ wpc' = "upd0" /\ UNCHANGED seen
       \/ wpc = "upd0" /\ See(0) /\ wpc' = "upd1"
       \/ wpc = "upd1" /\ See(1) /\ wpc' = "loop"
    /\ UNCHANGED <<gen, inn, ptr, freed, rpc, rgen, rptr, wold>>

W_Free ==
    /\ wpc = "free"
    /\ freed' = freed \cup {wold}
    /\ wpc' = "idle"
    /\ UNCHANGED <<gen, inn, ptr, rpc, rgen, rptr, wold, seen>>

Next ==
    \/ \E r \in Readers : R_Gen(r) \/ R_Inc(r) \/ R_Ptr(r) \/ R_Dec(r)
    \/ W_Swap \/ W_Pre \/ W_Flip \/ W_Loop \/ W_Free

Spec == Init /\ [][Next]_vars

NoUseAfterFree == \A r \in Readers : rpc[r] = "p" => rptr[r] \notin freed

TypeOK ==
    /\ gen \in Slots
    /\ inn \in [Slots -> SUBSET Readers]
    /\ ptr \in Ptrs
    /\ freed \in SUBSET Ptrs
    /\ rpc \in [Readers -> RPcs]
    /\ rgen \in [Readers -> Slots]
    /\ rptr \in [Readers -> Ptrs]
    /\ wpc \in WPcs
    /\ wold \in Ptrs
    /\ seen \in [Slots -> BOOLEAN]

Counted == \A r \in Readers : rpc[r] \in {"i", "p"} => r \in inn[rgen[r]]

HeldPinsWriter ==
    \A r \in Readers : rpc[r] = "p" =>
        \/ rptr[r] = ptr
        \/ /\ wpc \in Waiting
           /\ wold = rptr[r]
           /\ ~seen[rgen[r]]

FreeMeansSeen == wpc = "free" => seen[0] /\ seen[1]

Heap ==
    /\ ptr \notin freed
    /\ InBarrier => wold \notin freed /\ wold # ptr

IndInv == TypeOK /\ Counted /\ HeldPinsWriter /\ FreeMeansSeen /\ Heap

THEOREM InitInv == Init => IndInv
  BY DEF Init, IndInv, TypeOK, Counted, HeldPinsWriter, FreeMeansSeen, Heap, Slots, RPcs, WPcs,
         InBarrier, Waiting

THEOREM InvSafe == IndInv => NoUseAfterFree
  BY DEF IndInv, NoUseAfterFree, HeldPinsWriter, Heap, InBarrier, Waiting

THEOREM Step == IndInv /\ [Next]_vars => IndInv'
<1> SUFFICES ASSUME IndInv, [Next]_vars PROVE IndInv'
  OBVIOUS
<1> USE DEF IndInv, TypeOK, Counted, HeldPinsWriter, FreeMeansSeen, Heap, Slots, RPcs, WPcs,
            InBarrier, Waiting, Allocated, See
<1>1. ASSUME NEW r \in Readers, R_Gen(r) PROVE IndInv'
  BY <1>1 DEF R_Gen
<1>2. ASSUME NEW r \in Readers, R_Inc(r) PROVE IndInv'
  BY <1>2 DEF R_Inc
<1>3. ASSUME NEW r \in Readers, R_Ptr(r) PROVE IndInv'
  BY <1>3 DEF R_Ptr
<1>4. ASSUME NEW r \in Readers, R_Dec(r) PROVE IndInv'
  BY <1>4 DEF R_Dec
<1>5. CASE W_Swap
  BY <1>5 DEF W_Swap
<1>6. CASE W_Pre
  BY <1>6 DEF W_Pre
<1>7. CASE W_Flip
  BY <1>7 DEF W_Flip
<1>8. CASE W_Loop
  BY <1>8 DEF W_Loop
<1>9. CASE W_Free
  BY <1>9 DEF W_Free
<1>10. CASE UNCHANGED vars
  BY <1>10 DEF vars
<1> QED
  BY <1>1, <1>2, <1>3, <1>4, <1>5, <1>6, <1>7, <1>8, <1>9, <1>10 DEF Next

\* a snapshot is released at most once per life: at the moment of the free it is not free already,
\* and it is not the current one (only a writer step ever frees: W_Free is the only action changing
\* `freed` by adding to it)
NoDoubleFree == wpc = "free" => (wold \notin freed /\ wold # ptr)

THEOREM InvFreeOnce == IndInv => NoDoubleFree
  BY DEF IndInv, Heap, NoDoubleFree, InBarrier, Waiting

THEOREM Safety == Spec => [](NoUseAfterFree /\ NoDoubleFree)
<1>1. Spec => []IndInv
  BY InitInv, Step, PTL DEF Spec
<1> QED
  BY <1>1, InvSafe, InvFreeOnce, PTL
=============================================================================
