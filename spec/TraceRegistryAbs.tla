--------------------------- MODULE TraceRegistryAbs ---------------------------
(***************************************************************************)
(* Property-level monitor of the global registry of signal-hook-registry,  *)
(* driven by recorded executions of the real code (register / unregister / *)
(* unregister_signal on any threads, simulated deliveries through the real *)
(* dispatcher on any thread, including nested on a thread that is mid-     *)
(* mutation).  Every event is accepted; what it proves wrong is recorded   *)
(* in `viol`, and each property is an invariant over `viol`, so one        *)
(* property's check is not disturbed by another property's violation.      *)
(*                                                                         *)
(* Abstract state: per action tag its signal, id and life-cycle; per       *)
(* delivery frame what must / may run and what ran; the two half-locks     *)
(* (D = data, F = race fallback) as in HalfLockAbs; which signals the      *)
(* kernel currently routes to the library; what each signal's previous     *)
(* disposition was.                                                        *)
(*                                                                         *)
(*   C01  V_C01   quiescent removal, release once / by the remover /       *)
(*                outside handlers, no touch of released snapshots         *)
(*   C02  V_C02   one consistent snapshot per delivery, in order           *)
(*   C03  V_C03   dispatcher: no lock, no hint, no alloc/free, bounded     *)
(*   C04  V_C04   previous handler chained once, first, same convention    *)
(*   C05  V_C05   ids unique, results right, final content = model         *)
(*   C18  V_C18   no deadlock / livelock / wedged mutator                  *)
(***************************************************************************)
EXTENDS Naturals, Sequences, FiniteSets, TLC, Json, IOUtils

CONSTANTS HandlerBase,    \* dispatcher's own steps without actions (C03)
          HandlerPerAct   \* own steps per action run

Rec == ndJsonDeserialize(IOEnv.TRACE)

VARIABLES stale,    \* signal -> handler kind that was replaced by other code while the first registration
                    \* of the signal was under way (upstream's documented race: may be chained to until
                    \* that registration returns)
          donefr,   \* finished deliveries of the run: set of [sig, init, ran] (bulk removal is atomic)
          usig,     \* open unregister_signal calls: set of <<thread, signal>>
          tainted,  \* a destructor of captured state panicked while an old version was being freed
                    \* (the rest of that version is leaked by the unwinding, as with any Rust
                    \* collection): later removals cannot be expected to release their state
          l, acts, frames, dropped, usedIds, before, libDisp, prevKind,
          live, cur, replaced, held, everFreed, viol

vars == <<stale, donefr, usig, tainted, l, acts, frames, dropped, usedIds, before, libDisp, prevKind,
          live, cur, replaced, held, everFreed, viol>>

R == Rec[l]
F == <<R.t, R.d>>
Ev(e) == l <= Len(Rec) /\ R.e = e /\ l' = l + 1

Put(f, k, v) == [x \in DOMAIN f \cup {k} |-> IF x = k THEN v ELSE f[x]]
Del(f, k) == [x \in DOMAIN f \ {k} |-> f[x]]
Flag(c, s) == IF c THEN {s} ELSE {}
Tags == DOMAIN acts
TagsOf(sig, states) == {g \in Tags : acts[g].sig = sig /\ acts[g].st \in states}
Range(s) == {s[i] : i \in 1..Len(s)}

InitState ==
    /\ acts = [g \in {} |-> 0]
    /\ frames = [f \in {} |-> 0]
    /\ dropped = {}
    /\ usedIds = {}
    /\ before = {}
    /\ libDisp = {}
    /\ prevKind = [s \in {} |-> ""]
    /\ live = [h \in {"D", "F"} |-> IF h = "D" THEN {1} ELSE {2}]
    /\ cur = [h \in {"D", "F"} |-> IF h = "D" THEN 1 ELSE 2]
    /\ replaced = [h \in {"D", "F"} |-> {}]
    /\ held = {}
    /\ everFreed = {}
    /\ viol = {}
    /\ usig = {} /\ tainted = FALSE /\ donefr = {} /\ stale = [x \in {} |-> ""]

TInit == l = 1 /\ InitState

Quiescent == DOMAIN frames = {} /\ held = {}
             /\ \A g \in Tags : acts[g].st \notin {"registering", "removing", "maybe"}
             /\ usig = {}

\* A run starts: everything back to the initial state; the scenario's previous dispositions.
TReset ==
    /\ Ev("reset") /\ usig' = {} /\ tainted' = FALSE /\ donefr' = {} /\ stale' = [x \in {} |-> ""]
    /\ acts' = [g \in {} |-> 0] /\ frames' = [f \in {} |-> 0] /\ dropped' = {}
    /\ usedIds' = {} /\ before' = {} /\ libDisp' = {}
    /\ prevKind' = IF "prev" \in DOMAIN R
                   THEN [s \in {p[1] : p \in Range(R.prev)} |->
                           (CHOOSE p \in Range(R.prev) : p[1] = s)[2]]
                   ELSE [s \in {} |-> ""]
    /\ live' = [h \in {"D", "F"} |-> IF h = "D" THEN {1} ELSE {2}]
    /\ cur' = [h \in {"D", "F"} |-> IF h = "D" THEN 1 ELSE 2]
    /\ replaced' = [h \in {"D", "F"} |-> {}]
    /\ held' = {} /\ everFreed' = {}
    /\ viol' = viol \cup Flag(l > 1 /\ ~Quiescent /\ viol = {}, "not_quiescent_at_end")

Keep(vs) == UNCHANGED vs /\ UNCHANGED <<usig, tainted, donefr, stale>>
Keep2(vs) == UNCHANGED vs /\ UNCHANGED <<tainted, donefr, stale>>   \* for the actions that change usig
Keep3(vs) == UNCHANGED vs /\ UNCHANGED <<usig, donefr, stale>>      \* for the action that changes tainted
Keep4(vs) == UNCHANGED vs /\ UNCHANGED <<usig, tainted, stale>>     \* for the action that changes donefr
Keep5(vs) == UNCHANGED vs /\ UNCHANGED <<usig, tainted, donefr>>    \* for the actions that change stale

TCallReg ==
    /\ Ev("call_reg")
    /\ acts' = Put(acts, R.tag, [sig |-> R.sig, id |-> 0, st |-> "registering", by |-> {R.t}])
    /\ frames' = [f \in DOMAIN frames |->
                    IF frames[f].sig = R.sig THEN [frames[f] EXCEPT !.may = @ \cup {R.tag}]
                    ELSE frames[f]]
    /\ viol' = viol \cup Flag(R.tag \in Tags, "tag_reused_by_harness")
    /\ Keep(<<dropped, usedIds, before, libDisp, prevKind, live, cur, replaced, held, everFreed>>)

TRetReg ==
    /\ Ev("ret_reg")
    \* An unregister_signal of the same signal that is under way may or may not see the new action:
    \* until it returns the action is "maybe" there (no delivery is obliged to run it). It may even
    \* have removed it already (st = "removing": released by that call before register returned).
    /\ LET removers == {u[1] : u \in {x \in usig : x[2] = acts[R.tag].sig}} IN
       acts' = IF acts[R.tag].st = "removing" THEN [acts EXCEPT ![R.tag].id = R.id]
               ELSE IF removers # {} THEN [acts EXCEPT ![R.tag].id = R.id, ![R.tag].st = "maybe",
                                                       ![R.tag].by = removers]
               ELSE [acts EXCEPT ![R.tag].id = R.id, ![R.tag].st = "active"]
    /\ usedIds' = usedIds \cup {R.id}
    /\ viol' = viol \cup Flag(R.id \in usedIds \/ R.id = 0, "id_reused")
                    \cup Flag(R.tag \in dropped /\ acts[R.tag].st # "removing", "dropped_while_registered")
    /\ stale' = [x \in DOMAIN stale \ {acts[R.tag].sig} |-> stale[x]]
    /\ Keep5(<<frames, dropped, before, libDisp, prevKind, live, cur, replaced, held, everFreed>>)

\* A registration that failed (error or the documented panic): nothing is registered and the
\* would-be action has been released by the caller's thread.
TRetRegFail ==
    /\ (Ev("ret_reg_err") \/ Ev("ret_reg_panic"))
    /\ acts' = [acts EXCEPT ![R.tag].st = "failed"]
    /\ viol' = viol \cup Flag(R.tag \notin dropped, "failed_registration_leaks_action")
                    \cup Flag(R.e = "ret_reg_panic" /\ acts[R.tag].sig \notin {4, 8, 9, 11, 19},
                              "mutator_wedged_by_earlier_panic")
    /\ Keep(<<frames, dropped, usedIds, before, libDisp, prevKind, live, cur, replaced, held,
              everFreed>>)

\* Removal begins: the tag is no longer obligatory for deliveries in flight.
\* `by` is the set of threads currently trying to remove the action (unregister(id) and
\* unregister_signal may overlap); whoever releases its state is the remover and must report so.
StartRemoving(gs, t) ==
    /\ acts' = [g \in Tags |-> IF g \in gs
                               THEN [acts[g] EXCEPT !.st = "removing",
                                                    !.by = IF acts[g].st \in {"removing", "maybe"} THEN @ \cup {t} ELSE {t}]
                               ELSE acts[g]]
    /\ frames' = [f \in DOMAIN frames |-> [frames[f] EXCEPT !.must = @ \ gs]]

TCallUnreg ==
    /\ Ev("call_unreg")
    /\ IF acts[R.tag].st \in {"active", "removing", "maybe"} /\ R.tag \notin dropped
       THEN StartRemoving({R.tag}, R.t)
       ELSE Keep(<<acts, frames>>)
    /\ Keep(<<dropped, usedIds, before, libDisp, prevKind, live, cur, replaced, held, everFreed,
              viol>>)

Running(g) == \E f \in DOMAIN frames : frames[f].inAct = g

TRetUnreg ==
    /\ Ev("ret_unreg")
    /\ LET a == acts[R.tag]
           cand == a.st = "removing" /\ R.t \in a.by
           won == cand /\ R.tag \in dropped /\ a.by = {R.t}        \* this thread released it
           claims == R.res = 1
           mine == won \/ (cand /\ claims) IN
       /\ acts' = IF mine THEN [acts EXCEPT ![R.tag].st = "removed"]
                  ELSE IF cand THEN [acts EXCEPT ![R.tag].by = @ \ {R.t}] ELSE acts
       /\ viol' = viol
            \cup Flag(won /\ ~claims, "unreg_result")
            \cup Flag(~cand /\ claims, "unreg_result")
            \cup Flag(cand /\ claims /\ R.tag \in dropped /\ a.by # {R.t}, "unreg_result")
            \* reports "not found" although nobody else is removing the action it was asked about
            \cup Flag(cand /\ ~claims /\ R.tag \notin dropped /\ a.by = {R.t}, "unreg_result")
            \cup Flag(mine /\ Running(R.tag), "act_in_progress_at_unreg_return")
            \cup Flag(mine /\ R.tag \notin dropped /\ ~tainted, "not_dropped_at_return")
    /\ Keep(<<frames, dropped, usedIds, before, libDisp, prevKind, live, cur, replaced, held,
              everFreed>>)

\* The destructor of the removed action's state panicked inside unregister: the removal itself
\* was already published.
TRetUnregPanic ==
    /\ Ev("ret_unreg_panic") /\ tainted' = TRUE
    /\ acts' = [acts EXCEPT ![R.tag].st = "removed"]
    /\ Keep3(<<frames, dropped, usedIds, before, libDisp, prevKind, live, cur, replaced, held,
              everFreed, viol>>)

TCallUnregSig ==
    /\ Ev("call_unregsig")
    /\ StartRemoving({g \in TagsOf(R.sig, {"active", "removing", "maybe"}) : g \notin dropped}, R.t)
    /\ usig' = usig \cup {<<R.t, R.sig>>}
    /\ Keep2(<<dropped, usedIds, before, libDisp, prevKind, live, cur, replaced, held, everFreed,
               viol>>)

TRetUnregSig ==
    /\ Ev("ret_unregsig")
    /\ LET cand == {g \in Tags : acts[g].sig = R.sig /\ acts[g].st \in {"removing", "maybe"}
                                 /\ R.t \in acts[g].by}
           mine == {g \in cand : g \in dropped /\ acts[g].by = {R.t}}
           alone == {g \in cand : acts[g].st = "removing" /\ acts[g].id # 0
                                   /\ g \notin dropped /\ acts[g].by = {R.t}} IN
       /\ acts' = [g \in Tags |->
                     IF g \in mine THEN [acts[g] EXCEPT !.st = "removed"]
                     ELSE IF g \in cand /\ acts[g].st = "maybe" /\ acts[g].by = {R.t}
                          THEN [acts[g] EXCEPT !.st = "active", !.by = {}]   \* it was not seen after all
                     ELSE IF g \in cand THEN [acts[g] EXCEPT !.by = @ \ {R.t}]
                     ELSE acts[g]]
       /\ usig' = usig \ {<<R.t, R.sig>>}
       /\ viol' = viol
            \cup Flag(~tainted /\ (mine # {}) # (R.res = 1), "unregsig_result")
            \cup Flag(~tainted /\ alone # {}, "unregsig_left_an_action_behind")
            \* unregister_signal is one step of the model: a delivery that ran one of the actions it
            \* removed saw the state before that step, hence every other one that was registered
            \* when the delivery began
            \cup Flag(\E d \in donefr : d.sig = R.sig /\ d.ran \cap mine # {}
                                         /\ (mine \cap d.init) \ d.ran # {},
                      "bulk_removal_seen_partially")
            \cup Flag(\E g \in mine : Running(g), "act_in_progress_at_unreg_return")
            \cup Flag(~tainted /\ \E g \in mine : g \notin dropped, "not_dropped_at_return")
    /\ Keep2(<<frames, dropped, usedIds, before, libDisp, prevKind, live, cur, replaced, held,
              everFreed>>)

TDispLib ==
    /\ Ev("disp_lib")
    /\ libDisp' = libDisp \cup {R.sig}
    /\ Keep(<<acts, frames, dropped, usedIds, before, prevKind, live, cur, replaced, held,
              everFreed, viol>>)

PrevOf(sig) == IF sig \in DOMAIN prevKind THEN prevKind[sig] ELSE "dfl"
IsHandler(k) == k \in {"plain", "info", "plainR", "infoR"}
Conv(k) == IF k \in {"plain", "plainR"} THEN "plain" ELSE IF k \in {"info", "infoR"} THEN "info" ELSE k

TDeliver ==
    /\ Ev("deliver")
    /\ frames' = Put(frames, F,
          [sig |-> R.sig, id |-> R.id, must |-> TagsOf(R.sig, {"active"}),
           init |-> TagsOf(R.sig, {"active"}),
           lenient |-> R.sig \in DOMAIN stale,    \* began inside upstream's documented race window
           may |-> TagsOf(R.sig, {"registering", "active", "removing", "maybe"}),
           ran |-> << >>, inAct |-> 0, prev |-> 0])
    /\ viol' = viol \cup Flag(R.sig \notin libDisp, "delivery_before_takeover_by_harness")
    /\ Keep(<<acts, dropped, usedIds, before, libDisp, prevKind, live, cur, replaced, held,
              everFreed>>)

TPrev ==
    /\ Ev("prev")
    /\ IF F \in DOMAIN frames
       THEN LET f == frames[F] IN
            /\ frames' = [frames EXCEPT ![F].prev = @ + 1]
            /\ viol' = viol
                 \cup Flag(f.prev >= 1, "prev_twice")
                 \cup Flag(f.ran # << >> \/ f.inAct # 0, "prev_after_action")
                 \cup Flag(R.sig # f.sig, "prev_wrong_signal")
                 \cup Flag(R.conv # Conv(PrevOf(f.sig))
                           /\ ~(f.lenient /\ f.sig \in DOMAIN stale /\ R.conv = Conv(stale[f.sig]))
                           /\ ~(f.lenient /\ f.sig \notin DOMAIN stale), "prev_convention")
                 \cup Flag(R.conv = "info" /\ R.id # f.id, "prev_arguments")
       ELSE /\ Keep(frames) /\ viol' = viol \cup {"prev_outside_delivery"}
    /\ Keep(<<acts, dropped, usedIds, before, libDisp, prevKind, live, cur, replaced, held,
              everFreed>>)

TActBegin ==
    /\ Ev("act_begin")
    /\ LET f == frames[F]
           g == R.tag IN
       /\ frames' = [frames EXCEPT ![F].inAct = g]
       /\ before' = before \cup {<<u, g>> : u \in Range(f.ran)}
       /\ viol' = viol
            \cup Flag(acts[g].st \in {"removed", "failed"}, "act_after_removed")
            \cup Flag(g \in dropped, "act_uses_released_state")
            \cup Flag(g \in Range(f.ran), "ran_twice")
            \cup Flag(g \notin f.may, "not_registered_during_delivery")
            \cup Flag(acts[g].sig # f.sig, "wrong_signal")
            \cup Flag(f.inAct # 0, "actions_overlap_in_one_delivery")
            \cup Flag(~f.lenient /\ IsHandler(PrevOf(f.sig)) /\ f.prev = 0, "prev_missing_before_action")
    /\ Keep(<<acts, dropped, usedIds, libDisp, prevKind, live, cur, replaced, held, everFreed>>)

TActEnd ==
    /\ Ev("act_end")
    /\ frames' = [frames EXCEPT ![F].inAct = 0, ![F].ran = Append(@, R.tag)]
    /\ viol' = viol \cup Flag(R.tag \in dropped, "act_uses_released_state")
    /\ Keep(<<acts, dropped, usedIds, before, libDisp, prevKind, live, cur, replaced, held,
              everFreed>>)

TReturn ==
    /\ Ev("return")
    /\ LET f == frames[F] IN
       /\ frames' = Del(frames, F)
       /\ viol' = viol
            \cup Flag(f.must \ Range(f.ran) # {}, "registered_action_did_not_run")
            \cup Flag(~f.lenient /\ IsHandler(PrevOf(f.sig)) /\ f.prev # 1, "prev_not_exactly_once")
            \cup Flag(~f.lenient /\ ~IsHandler(PrevOf(f.sig)) /\ f.prev # 0, "prev_unexpected")
            \cup Flag(\E h \in held : h[1] = R.t /\ h[2] = R.d, "guard_outlives_delivery")
            \cup Flag(R.locks > 0, "handler_lock")
            \cup Flag(R.hints > 0, "handler_hint")
            \cup Flag(R.allocs > 0, "handler_alloc")
            \cup Flag(R.frees > 0, "handler_free")
            \cup Flag(R.steps > HandlerBase + HandlerPerAct * Len(f.ran), "handler_steps")
       /\ donefr' = donefr \cup {[sig |-> f.sig, init |-> f.init, ran |-> Range(f.ran)]}
    /\ Keep4(<<acts, dropped, usedIds, before, libDisp, prevKind, live, cur, replaced, held,
               everFreed>>)

\* The state an action captured was released.
TActDrop ==
    /\ Ev("act_drop")
    /\ LET g == R.tag
           a == acts[g] IN
       /\ dropped' = dropped \cup {g}
       /\ viol' = viol
            \cup Flag(g \in dropped, "double_drop")
            \cup Flag(R.d > 0, "drop_in_handler")
            \cup Flag(Running(g), "drop_while_running")
            \cup Flag(~(a.st \in {"removing", "registering", "maybe"} /\ R.t \in a.by)
                      /\ ~(a.st = "registering" /\ <<R.t, a.sig>> \in usig),
                      "drop_by_other_than_remover")
       /\ acts' = IF a.st \in {"removing", "maybe"} /\ R.t \in a.by
                  THEN [acts EXCEPT ![g].by = {R.t}, ![g].st = "removing"]
                  ELSE IF a.st = "registering" /\ R.t \notin a.by /\ <<R.t, a.sig>> \in usig
                  THEN [acts EXCEPT ![g].by = {R.t}, ![g].st = "removing"]
                  ELSE acts
    /\ Keep(<<frames, usedIds, before, libDisp, prevKind, live, cur, replaced, held,
              everFreed>>)

(* the two half-locks, as in HalfLockAbs *)
TAlloc ==
    /\ Ev("alloc")
    /\ live' = [live EXCEPT ![R.h] = @ \cup {R.s}]
    /\ viol' = viol \cup Flag(R.s \in live[R.h] \/ R.s \in everFreed, "alloc_of_existing")
    /\ Keep(<<acts, frames, dropped, usedIds, before, libDisp, prevKind, cur, replaced, held,
              everFreed>>)

TPublish ==
    /\ Ev("publish")
    /\ replaced' = [replaced EXCEPT ![R.h] = @ \cup {cur[R.h]}]
    /\ cur' = [cur EXCEPT ![R.h] = R.s]
    /\ viol' = viol \cup Flag(R.s \notin live[R.h], "publish_of_dead")
    /\ Keep(<<acts, frames, dropped, usedIds, before, libDisp, prevKind, live, held, everFreed>>)

\* `held` is a bag (one frame may hold the same snapshot through two guards): a set of
\* <<thread, depth, snapshot, k>>, k counting that frame's guards on that snapshot.
HeldCount(t, d, sn) == Cardinality({h \in held : h[1] = t /\ h[2] = d /\ h[3] = sn})

TOpen ==
    /\ Ev("open")
    /\ held' = held \cup {<<R.t, R.d, R.s, HeldCount(R.t, R.d, R.s) + 1>>}
    /\ viol' = viol \cup Flag(R.s \notin live[R.h], "open_of_released_snapshot")
    /\ Keep(<<acts, frames, dropped, usedIds, before, libDisp, prevKind, live, cur, replaced,
              everFreed>>)

TClose ==
    /\ Ev("close")
    /\ held' = held \ {<<R.t, R.d, R.s, HeldCount(R.t, R.d, R.s)>>}
    /\ viol' = viol \cup Flag(HeldCount(R.t, R.d, R.s) = 0, "close_without_open")
    /\ Keep(<<acts, frames, dropped, usedIds, before, libDisp, prevKind, live, cur, replaced,
              everFreed>>)

TFree ==
    /\ Ev("free")
    /\ live' = [live EXCEPT ![R.h] = @ \ {R.s}]
    /\ everFreed' = everFreed \cup {R.s}
    /\ viol' = viol
         \cup Flag(\E h \in held : h[3] = R.s, "free_while_held")
         \cup Flag(R.s \notin live[R.h], "double_free")
         \cup Flag(R.s = cur[R.h], "free_of_current")
         \cup Flag(R.d > 0, "free_in_handler")
    /\ Keep(<<acts, frames, dropped, usedIds, before, libDisp, prevKind, cur, replaced, held>>)

TDone ==
    /\ Ev("done")
    /\ viol' = viol \cup Flag(\E f \in DOMAIN frames : f[1] = R.t, "thread_ended_inside_delivery")
    /\ Keep(<<acts, frames, dropped, usedIds, before, libDisp, prevKind, live, cur, replaced, held,
              everFreed>>)

\* What the real registry holds at the end of the run, for one signal, in dispatch order.
TFinal ==
    /\ Ev("final")
    /\ LET want == {acts[g].id : g \in TagsOf(R.sig, {"active"})}
           got == Range(R.ids) IN
       viol' = viol
         \cup Flag(want # got \/ Len(R.ids) # Cardinality(got), "final_content_mismatch")
         \cup Flag(\E i \in 1..(Len(R.ids) - 1) : R.ids[i] >= R.ids[i + 1], "final_order")
    /\ Keep(<<acts, frames, dropped, usedIds, before, libDisp, prevKind, live, cur, replaced, held,
              everFreed>>)

TFinalNext ==
    /\ Ev("final_next")
    /\ viol' = viol \cup Flag(\E i \in usedIds : i >= R.next, "next_id_not_fresh")
    /\ Keep(<<acts, frames, dropped, usedIds, before, libDisp, prevKind, live, cur, replaced, held,
              everFreed>>)

TStuck ==
    /\ l <= Len(Rec) /\ R.e \in {"deadlock", "livelock", "panic", "aborted"} /\ l' = l + 1
    /\ viol' = viol \cup {R.e}
                    \cup Flag(R.e \in {"deadlock", "livelock"} /\ "hdepth" \in DOMAIN R /\ R.hdepth > 0,
                              "handler_blocked_or_spinning")
                    \cup Flag(R.e = "panic" /\ "inh" \in DOMAIN R /\ R.inh = 1, "handler_panicked")
    /\ Keep(<<acts, frames, dropped, usedIds, before, libDisp, prevKind, live, cur, replaced, held,
              everFreed>>)

\* Other code of the process replaced the signal's handler before the library took it over: that
\* one is what the library displaces and has to chain to.
KindOf(k) == CASE k = 1 -> "plain" [] k = 2 -> "info" [] k = 3 -> "plainR" [] k = 4 -> "infoR" [] OTHER -> "ign"
TForeign ==
    /\ Ev("foreign_install")
    /\ prevKind' = [s \in DOMAIN prevKind \cup {R.sig} |-> IF s = R.sig THEN KindOf(R.k) ELSE prevKind[s]]
    \* lib.rs:608-610 (documented): if the first registration of the signal is under way, the handler
    \* detected earlier may still be chained to until the slot is installed
    /\ stale' = IF \E g \in Tags : acts[g].sig = R.sig /\ acts[g].st = "registering"
                THEN [x \in DOMAIN stale \cup {R.sig} |-> IF x = R.sig THEN PrevOf(R.sig) ELSE stale[x]]
                ELSE stale
    /\ viol' = viol \cup Flag(R.sig \in libDisp, "delivery_before_takeover_by_harness")
    /\ Keep5(<<acts, frames, dropped, usedIds, before, libDisp, live, cur, replaced, held, everFreed>>)

TSkip ==
    /\ l <= Len(Rec) /\ R.e \in {"unreg_unknown", "foreign_skipped"} /\ l' = l + 1
    /\ Keep(<<acts, frames, dropped, usedIds, before, libDisp, prevKind, live, cur, replaced, held,
              everFreed, viol>>)

TNext == TReset \/ TCallReg \/ TRetReg \/ TRetRegFail \/ TCallUnreg \/ TRetUnreg \/ TRetUnregPanic
         \/ TCallUnregSig \/ TRetUnregSig \/ TDispLib \/ TDeliver \/ TPrev \/ TActBegin
         \/ TActEnd \/ TReturn \/ TActDrop \/ TAlloc \/ TPublish \/ TOpen \/ TClose \/ TFree
         \/ TDone \/ TFinal \/ TFinalNext \/ TStuck \/ TSkip \/ TForeign

TraceSpec == TInit /\ [][TNext]_vars

TraceAccepted ==
    LET d == TLCGet("stats").diameter IN
    IF d - 1 = Len(Rec) THEN TRUE
    ELSE Print(<<"TRACE_REJECTED", d, Rec[d]>>, FALSE)

----------------------------------------------------------------------------
C01set == {"act_after_removed", "act_uses_released_state", "act_in_progress_at_unreg_return",
           "not_dropped_at_return", "double_drop", "drop_in_handler", "drop_while_running",
           "drop_by_other_than_remover", "open_of_released_snapshot", "free_while_held",
           "double_free", "free_of_current", "free_in_handler", "aborted",
           "failed_registration_leaks_action", "dropped_while_registered"}
\* "free_while_held": a delivery keeps walking a registry version that a mutator has released (the
\* harness stops the run before the real free) - which actions it runs from there on is undefined,
\* in particular it may run an action whose unregister has returned.
C02set == {"ran_twice", "not_registered_during_delivery", "wrong_signal",
           "actions_overlap_in_one_delivery", "registered_action_did_not_run", "order",
           "free_while_held", "bulk_removal_seen_partially"}
C03set == {"handler_blocked_or_spinning", "handler_panicked", "handler_lock", "handler_hint", "handler_alloc", "handler_free", "handler_steps",
           "guard_outlives_delivery"}
C04set == {"prev_twice", "prev_after_action", "prev_wrong_signal", "prev_convention",
           "prev_arguments", "prev_outside_delivery", "prev_missing_before_action",
           "prev_not_exactly_once", "prev_unexpected"}
C05set == {"id_reused", "unreg_result", "unregsig_result", "unregsig_left_an_action_behind",
           "bulk_removal_seen_partially",
           "final_content_mismatch",
           "final_order", "next_id_not_fresh"}
C18set == {"deadlock", "livelock", "panic", "mutator_wedged_by_earlier_panic"}
Harness == {"tag_reused_by_harness", "delivery_before_takeover_by_harness",
            "thread_ended_inside_delivery", "not_quiescent_at_end", "close_without_open",
            "alloc_of_existing", "publish_of_dead"}

\* Dispatch order = id order, for every pair seen in that order in some delivery.
OrderOk == \A p \in before :
    (acts[p[1]].id # 0 /\ acts[p[2]].id # 0) => acts[p[1]].id < acts[p[2]].id

V_C01 == viol \cap C01set = {}
V_C02 == viol \cap C02set = {} /\ OrderOk
V_C03 == viol \cap C03set = {}
V_C04 == viol \cap C04set = {}
V_C05 == viol \cap C05set = {}
V_C18 == viol \cap C18set = {}
V_Harness == viol \cap Harness = {}
=============================================================================
