------------------------------ MODULE FlagOps ------------------------------
(***************************************************************************)
(* flag::register / register_usize / register_conditional_shutdown         *)
(* (flag.rs:153-197) composed with the registry's action order (C02): the  *)
(* application arms / disarms a flag, signals are delivered, the process   *)
(* exits.  A history is a sequence over                                    *)
(*    "a" arm (flag := TRUE)   "d" disarm   "u" usize flag := 3   "r" a    *)
(*    delivery of the signal.                                              *)
(* Run(order, ops, status) is what an observer must see: the values read   *)
(* after every surviving delivery, and how the process ends.               *)
(***************************************************************************)
EXTENDS Naturals, Sequences, TLC

Orders == {"shutdown_first", "flag_first", "shutdown_only", "flag_only"}

\* The actions registered for the signal, in registration order (the usize flag comes first).
Actions(order) ==
    <<"usize">> \o
    (CASE order = "shutdown_first" -> <<"shutdown", "flag">>
       [] order = "flag_first" -> <<"flag", "shutdown">>
       [] order = "shutdown_only" -> <<"shutdown">>
       [] OTHER -> <<"flag">>)

\* One delivery: run the actions in order; st = [term, usz, dead].
RECURSIVE RunActions(_, _)
RunActions(acts, st) ==
    IF acts = << >> \/ st.dead THEN st
    ELSE LET a == Head(acts)
             st2 == CASE a = "usize" -> [st EXCEPT !.usz = 7]
                      [] a = "flag" -> [st EXCEPT !.term = TRUE]
                      [] OTHER -> IF st.term THEN [st EXCEPT !.dead = TRUE] ELSE st
         IN RunActions(Tail(acts), st2)

\* The whole history: returns [steps, exited_in_handler].
RECURSIVE RunOps(_, _, _, _)
RunOps(order, ops, st, steps) ==
    IF ops = << >> \/ st.dead THEN [steps |-> steps, dead |-> st.dead]
    ELSE LET o == Head(ops) IN
         CASE o = "a" -> RunOps(order, Tail(ops), [st EXCEPT !.term = TRUE], steps)
           [] o = "d" -> RunOps(order, Tail(ops), [st EXCEPT !.term = FALSE], steps)
           [] o = "u" -> RunOps(order, Tail(ops), [st EXCEPT !.usz = 3], steps)
           [] OTHER ->
              LET st2 == RunActions(Actions(order), st) IN
              RunOps(order, Tail(ops), st2,
                     IF st2.dead THEN steps
                     ELSE Append(steps, <<"R", IF st2.term THEN 1 ELSE 0, st2.usz>>))

Run(order, ops) == RunOps(order, ops, [term |-> FALSE, usz |-> 0, dead |-> FALSE], << >>)

=============================================================================
