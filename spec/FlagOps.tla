------------------------------ MODULE FlagOps ------------------------------
(***************************************************************************)
(* flag::register / register_usize / register_conditional_shutdown         *)
(* (flag.rs:153-197) composed with the registry's action order (C02): the  *)
(* application arms / disarms a flag, signals are delivered, the process   *)
(* exits.  A history is a sequence over                                    *)
(*    "a" arm (flag := TRUE)   "d" disarm   "u" usize flag := 3   "r" a    *)
(*    delivery of the signal   "w" a delivery of a second signal whose    *)
(*    default action is to ignore it (SIGWINCH) and which carries a       *)
(*    conditional default on the same flag.                               *)
(* register_conditional_default (flag.rs:218-236) is a conditional        *)
(* shutdown whose termination is the signal's own default action: kind =  *)
(* "term" dies by the signal, kind = "ign" does nothing; it only *reads*  *)
(* the flag.                                                              *)
(* Run(order, ops, status) is what an observer must see: the values read   *)
(* after every surviving delivery, and how the process ends.               *)
(***************************************************************************)
EXTENDS Naturals, Sequences, TLC

Orders == {"shutdown_first", "flag_first", "shutdown_only", "flag_only",
           "default_first", "default_only", "shared_winch"}
Kinds == {"term", "ign"}

\* The actions registered for the signal, in registration order (the usize flag comes first).
Actions(order) ==
    <<"usize">> \o
    (CASE order = "shutdown_first" -> <<"shutdown", "flag">>
       [] order = "flag_first" -> <<"flag", "shutdown">>
       [] order = "shutdown_only" -> <<"shutdown">>
       [] order = "default_first" -> <<"conddefault", "flag">>
       [] order = "default_only" -> <<"conddefault">>
       [] order = "shared_winch" -> <<"shutdown">>
       [] OTHER -> <<"flag">>)
\* The actions of the second signal ("w"): only "shared_winch" registers one.
WActions(order) == IF order = "shared_winch" THEN <<"conddefault_ign">> ELSE << >>

\* One delivery: run the actions in order; st = [term, usz, dead, how]
\* (how = "exit": _exit(status) by the conditional shutdown; "signal": killed by the signal's
\* default action through the conditional default).
RECURSIVE RunActions(_, _, _)
RunActions(acts, st, kind) ==
    IF acts = << >> \/ st.dead THEN st
    ELSE LET a == Head(acts)
             st2 == CASE a = "usize" -> [st EXCEPT !.usz = 7]
                      [] a = "flag" -> [st EXCEPT !.term = TRUE]
                      [] a = "shutdown" -> IF st.term THEN [st EXCEPT !.dead = TRUE, !.how = "exit"]
                                           ELSE st
                      [] a = "conddefault" -> IF st.term /\ kind = "term"
                                              THEN [st EXCEPT !.dead = TRUE, !.how = "signal"]
                                              ELSE st
                      [] OTHER -> st     \* conddefault_ign: the default action is to do nothing
         IN RunActions(Tail(acts), st2, kind)

\* The whole history: returns [steps, dead, how].
RECURSIVE RunOps(_, _, _, _, _)
RunOps(order, ops, st, steps, kind) ==
    IF ops = << >> \/ st.dead THEN [steps |-> steps, dead |-> st.dead, how |-> st.how]
    ELSE LET o == Head(ops) IN
         CASE o = "a" -> RunOps(order, Tail(ops), [st EXCEPT !.term = TRUE], steps, kind)
           [] o = "d" -> RunOps(order, Tail(ops), [st EXCEPT !.term = FALSE], steps, kind)
           [] o = "u" -> RunOps(order, Tail(ops), [st EXCEPT !.usz = 3], steps, kind)
           [] o = "w" ->
              LET st2 == RunActions(WActions(order), st, "ign") IN
              RunOps(order, Tail(ops), st2,
                     Append(steps, <<"W", IF st2.term THEN 1 ELSE 0, st2.usz>>), kind)
           [] OTHER ->
              LET st2 == RunActions(Actions(order), st, kind) IN
              RunOps(order, Tail(ops), st2,
                     IF st2.dead THEN steps
                     ELSE Append(steps, <<"R", IF st2.term THEN 1 ELSE 0, st2.usz>>), kind)

St0 == [term |-> FALSE, usz |-> 0, dead |-> FALSE, how |-> "none"]
Run(order, ops, kind) == RunOps(order, ops, St0, << >>, kind)

=============================================================================
