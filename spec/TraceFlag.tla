------------------------------ MODULE TraceFlag ------------------------------
(* C15: forked probes of flag / conditional-shutdown histories against Flag.tla. *)
EXTENDS FlagOps, Json, IOUtils

Rec == ndJsonDeserialize(IOEnv.TRACE)
VARIABLES l, viol
tvars == <<l, viol>>
R == Rec[l]
Flg(c, s) == IF c THEN {s} ELSE {}

TInit == l = 1 /\ viol = {}

TProbe ==
    /\ l <= Len(Rec) /\ R.e = "flags" /\ l' = l + 1
    /\ LET want == Run(R.order, R.ops, R.kind) IN
       viol' = viol
         \cup Flg(R.r.steps # want.steps, "flag_values_after_delivery")
         \cup Flg(want.dead /\ want.how = "exit" /\ R.status # "exited:" \o ToString(R.exit),
                  "wrong_exit_status_or_survived")
         \cup Flg(want.dead /\ want.how = "signal" /\ R.status # "signaled:" \o ToString(R.sig),
                  "conditional_default_did_not_terminate_by_the_signal")
         \cup Flg(want.dead /\ R.r.tokens # << >>, "exit_hooks_ran_on_shutdown")
         \cup Flg(~want.dead /\ (R.status # "exited:42" \/ R.r.tokens # <<"ATEXIT">>),
                  "terminated_although_condition_false")

TraceSpec == TInit /\ [][TProbe]_tvars
TraceAccepted ==
    LET d == TLCGet("stats").diameter IN
    IF d - 1 = Len(Rec) THEN TRUE ELSE Print(<<"TRACE_REJECTED", d, Rec[d]>>, FALSE)
V_C15 == viol = {}
=============================================================================
