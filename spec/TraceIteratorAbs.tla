--------------------------- MODULE TraceIteratorAbs ---------------------------
(***************************************************************************)
(* Property-level monitor of the signal iterators (iterator/backend.rs,    *)
(* iterator/mod.rs, exfiltrator/*.rs, low_level/pipe.rs::wake), driven by  *)
(* recorded executions of the real code under the scheduler.               *)
(*                                                                         *)
(* Abstract state: per watched signal the slot (a flag for SignalOnly, a   *)
(* FIFO of delivery ids for the info exfiltrators), how many deliveries    *)
(* began, what was yielded; the self-pipe's byte count; the closed flag;   *)
(* the consumer's current call and, for poll_signal, whether the readiness *)
(* callback was consulted and what it answered.                            *)
(*                                                                         *)
(* Steps of the code that the properties are about (source anchors):       *)
(*   flag_set / slot_put   exfiltrator store        backend.rs:142         *)
(*   wake                  pipe::wake send()         pipe.rs:149            *)
(*   read / tryread / cb   has_signals callback      mod.rs:205-217         *)
(*   flush                 SignalDelivery::flush      backend.rs:303-324    *)
(*   flag_take / slot_get  exfiltrator load           backend.rs:398        *)
(*   closed_set, closed_load   close() / is_closed    backend.rs:220,228    *)
(*   ids_lock / ids_unlock registered_signal_ids      backend.rs:66,193     *)
(*                                                                         *)
(* As in TraceRegistryAbs every event is accepted and what it proves wrong *)
(* goes to `viol`; C09..C12 (and the iterator part of C03) are invariants. *)
(***************************************************************************)
EXTENDS Integers, Sequences, FiniteSets, TLC, Json, IOUtils

CONSTANTS HandlerBase, HandlerPerAct

Rec == ndJsonDeserialize(IOEnv.TRACE)

VARIABLES fstate,     \* <<thread, depth>> of an open delivery -> [woke, stored]
          l, watched, flag, queue, begun, yielded, gotIds, delivered, bytes, closed, call,
          consulted, lastAns, lastPoll, frames, poisoned, viol,
          returned,   \* <<sig, id>> of deliveries that have returned
          preds       \* <<sig, id>> -> deliveries of that signal that had returned before it began

vars == <<fstate, l, watched, flag, queue, begun, yielded, gotIds, delivered, bytes, closed, call,
          consulted, lastAns, lastPoll, frames, poisoned, viol, returned, preds>>

R == Rec[l]
Ev(e) == l <= Len(Rec) /\ R.e = e /\ l' = l + 1
Flag(c, s) == IF c THEN {s} ELSE {}
Range(s) == {s[i] : i \in 1..Len(s)}
Sigs == 0..64
Consumer == 1

TInit ==
    /\ l = 1
    /\ watched = {} /\ flag = [s \in Sigs |-> FALSE] /\ queue = [s \in Sigs |-> << >>]
    /\ begun = [s \in Sigs |-> 0] /\ yielded = [s \in Sigs |-> 0]
    /\ gotIds = {} /\ delivered = {} /\ bytes = 0 /\ closed = FALSE /\ call = "none"
    /\ consulted = FALSE /\ lastAns = FALSE /\ lastPoll = 0 /\ frames = {} /\ poisoned = FALSE
    /\ viol = {}
    /\ returned = {} /\ preds = [x \in {} |-> {}] /\ fstate = [x \in {} |-> 0]

Keep(vs) == UNCHANGED vs /\ UNCHANGED fstate
KeepF(vs) == UNCHANGED vs         \* for the actions that change fstate
FKey == <<R.t, R.d>>
FSet(k, fld) == IF k \in DOMAIN fstate THEN [fstate EXCEPT ![k][fld] = TRUE] ELSE fstate

\* End of a run: a consumer parked as `pending` must not be stranded with an unreported signal
\* and no wake-up byte outstanding.
TReset ==
    /\ Ev("reset")
    /\ viol' = viol \cup Flag(l > 1 /\ lastPoll = 2 /\ ~closed /\ bytes = 0
                              /\ \E s \in watched \cap Sigs : flag[s] \/ queue[s] # << >>,
                              "pending_with_unreported_signal_and_no_wakeup")
                    \* ... nor parked without an armed wake-up (the readiness callback's last answer
                    \* was not "nothing available", so nobody will poll it again): a byte in the
                    \* pipe wakes no one who is not waiting for it
                    \cup Flag(l > 1 /\ lastPoll = 2 /\ ~closed /\ ~(consulted /\ ~lastAns)
                              /\ \E s \in watched \cap Sigs : flag[s] \/ queue[s] # << >>,
                              "pending_unarmed_with_unreported_signal")
    /\ watched' = Range(R.watch)
    /\ flag' = [s \in Sigs |-> FALSE] /\ queue' = [s \in Sigs |-> << >>]
    /\ begun' = [s \in Sigs |-> 0] /\ yielded' = [s \in Sigs |-> 0]
    /\ gotIds' = {} /\ delivered' = {} /\ bytes' = 0 /\ closed' = FALSE /\ call' = "none"
    /\ consulted' = FALSE /\ lastAns' = FALSE /\ lastPoll' = 0 /\ frames' = {}
    /\ poisoned' = FALSE
    /\ returned' = {} /\ preds' = [x \in {} |-> {}] /\ fstate' = [x \in {} |-> 0]

TDeliver ==
    /\ Ev("deliver")
    /\ begun' = [begun EXCEPT ![R.sig] = @ + 1]
    /\ frames' = frames \cup {<<R.t, R.d, R.sig, R.id>>}
    /\ delivered' = delivered \cup {<<R.sig, R.id>>}
    /\ preds' = [x \in DOMAIN preds \cup {<<R.sig, R.id>>} |->
                   IF x = <<R.sig, R.id>> THEN {y \in returned : y[1] = R.sig} ELSE preds[x]]
    \* sawfull: the per-signal buffer may have been full at some instant of this delivery (records
    \* queued + deliveries of the signal in flight >= 5): then storing nothing is legitimate
    /\ fstate' = [x \in DOMAIN fstate \cup {FKey} |->
                    IF x = FKey
                    THEN [woke |-> FALSE, stored |-> FALSE, sig |-> R.sig,
                          sawfull |-> Len(queue[R.sig]) + Cardinality({f \in frames : f[3] = R.sig}) + 1 >= 5]
                    ELSE fstate[x]]
    /\ KeepF(<<watched, flag, queue, yielded, gotIds, bytes, closed, call, consulted, lastAns,
               lastPoll, poisoned, viol, returned>>)

\* The innermost delivery frame of thread t.
FrameOf(t, d) == CHOOSE f \in frames : f[1] = t /\ f[2] = d

TFlagSet ==
    /\ Ev("flag_set")
    /\ flag' = [flag EXCEPT ![R.sig] = TRUE]
    /\ fstate' = FSet(FKey, "stored")
    /\ KeepF(<<watched, queue, begun, yielded, gotIds, delivered, bytes, closed, call, consulted,
               lastAns, lastPoll, frames, poisoned, viol>>)

\* An info exfiltrator stored the record of the delivery running in this frame.
TSlotPut ==
    /\ Ev("slot_put")
    /\ LET f == FrameOf(R.t, R.d) IN
       /\ queue' = [queue EXCEPT ![f[3]] = Append(@, f[4])]
       /\ fstate' = [x \in DOMAIN fstate |->
                       IF x = FKey THEN [fstate[x] EXCEPT !.stored = TRUE]
                       ELSE IF fstate[x].sig = f[3]
                               /\ Len(queue[f[3]]) + 1 + Cardinality({g \in frames : g[3] = f[3]}) >= 5
                            THEN [fstate[x] EXCEPT !.sawfull = TRUE]
                            ELSE fstate[x]]
    /\ KeepF(<<watched, flag, begun, yielded, gotIds, delivered, bytes, closed, call, consulted,
               lastAns, lastPoll, frames, poisoned, viol>>)

TWake ==
    /\ Ev("wake")
    /\ bytes' = bytes + 1
    /\ fstate' = FSet(FKey, "woke")
    /\ KeepF(<<watched, flag, queue, begun, yielded, gotIds, delivered, closed, call, consulted,
               lastAns, lastPoll, frames, poisoned, viol>>)

TReturn ==
    /\ Ev("return")
    /\ frames' = {f \in frames : ~(f[1] = R.t /\ f[2] = R.d)}
    /\ returned' = returned \cup {<<R.sig, R.id>>}
    /\ UNCHANGED preds
    /\ viol' = viol
         \cup Flag(R.locks > 0, "handler_lock") \cup Flag(R.hints > 0, "handler_hint")
         \cup Flag(R.allocs > 0, "handler_alloc") \cup Flag(R.frees > 0, "handler_free")
         \cup Flag(R.steps > HandlerBase + HandlerPerAct, "handler_steps")
         \* the instance's action ran (it woke the reader) but left nothing for the reader to find,
         \* although the per-signal buffer had room throughout the delivery
         \cup Flag(FKey \in DOMAIN fstate /\ fstate[FKey].woke /\ ~fstate[FKey].stored
                   /\ ~fstate[FKey].sawfull,
                   "delivery_woke_the_reader_but_stored_nothing")
    /\ fstate' = [x \in DOMAIN fstate \ {FKey} |-> fstate[x]]
    /\ KeepF(<<watched, flag, queue, begun, yielded, gotIds, delivered, bytes, closed, call,
               consulted, lastAns, lastPoll, poisoned>>)

(* consumer *)
TCall ==
    /\ l <= Len(Rec) /\ R.e \in {"call_wait", "call_pending", "call_forever", "call_poll"}
    /\ l' = l + 1
    /\ call' = R.e
    /\ consulted' = FALSE /\ lastAns' = FALSE
    /\ Keep(<<watched, flag, queue, begun, yielded, gotIds, delivered, bytes, closed, lastPoll,
              frames, poisoned, viol>>)

\* The readiness callback ran (blocking read of one byte, or a non-blocking try).
TRead ==
    /\ (Ev("read") \/ Ev("tryread"))
    /\ Keep(<<watched, flag, queue, begun, yielded, gotIds, delivered, bytes, closed, call,
              consulted, lastAns, lastPoll, frames, poisoned, viol>>)

TCb ==
    /\ Ev("cb")
    /\ consulted' = TRUE
    /\ lastAns' = (R.ans = 1)
    /\ bytes' = IF R.ans = 1 /\ bytes > 0 THEN bytes - 1 ELSE bytes
    /\ Keep(<<watched, flag, queue, begun, yielded, gotIds, delivered, closed, call, lastPoll,
              frames, poisoned, viol>>)

TFlush ==
    /\ Ev("flush")
    /\ bytes' = 0
    /\ Keep(<<watched, flag, queue, begun, yielded, gotIds, delivered, closed, call, consulted,
              lastAns, lastPoll, frames, poisoned, viol>>)

TFlagTake ==
    /\ Ev("flag_take")
    /\ flag' = IF R.ok THEN [flag EXCEPT ![R.sig] = (R.val = 1)] ELSE flag
    /\ Keep(<<watched, queue, begun, yielded, gotIds, delivered, bytes, closed, call, consulted,
              lastAns, lastPoll, frames, poisoned, viol>>)

TFlagPeek ==
    /\ Ev("flag_peek")
    /\ Keep(<<watched, flag, queue, begun, yielded, gotIds, delivered, bytes, closed, call,
              consulted, lastAns, lastPoll, frames, poisoned, viol>>)

TSlotGet ==
    /\ Ev("slot_get")
    /\ Keep(<<watched, flag, queue, begun, yielded, gotIds, delivered, bytes, closed, call,
              consulted, lastAns, lastPoll, frames, poisoned, viol>>)

\* C10: what the iterator hands to the caller.
TYield ==
    /\ Ev("yield")
    /\ LET s == R.sig IN
       /\ yielded' = [yielded EXCEPT ![s] = @ + 1]
       /\ IF R.id = 0
          THEN /\ Keep(<<queue, gotIds>>)
               /\ viol' = viol
                    \cup Flag(s \notin watched /\ (0 - s) \notin watched, "yield_of_unwatched_signal")
                    \cup Flag(yielded[s] + 1 > begun[s], "more_yields_than_deliveries")
          ELSE /\ gotIds' = gotIds \cup {<<s, R.id, R.t>>}
               /\ queue' = [queue EXCEPT ![s] = SelectSeq(@, LAMBDA x : x # R.id)]
               /\ viol' = viol
                    \cup Flag(s \notin watched /\ (0 - s) \notin watched, "yield_of_unwatched_signal")
                    \cup Flag(yielded[s] + 1 > begun[s], "more_yields_than_deliveries")
                    \cup Flag(<<s, R.id>> \notin delivered, "record_of_no_delivery")
                    \cup Flag(\E g \in gotIds : g[1] = s /\ g[2] = R.id, "record_yielded_twice")
                    \cup Flag(R.id < 0, "record_not_a_faithful_copy")
                    \* order is what one scanner sees: two batches scanned on two threads at once each
                    \* take records in order, the interleaving of their reports means nothing
                    \cup Flag(\E g \in gotIds : g[1] = s /\ g[3] = R.t /\ <<g[1], g[2]>> \in DOMAIN preds
                                   /\ <<s, R.id>> \in preds[<<g[1], g[2]>>], "records_out_of_order")
    /\ Keep(<<watched, flag, begun, delivered, bytes, closed, call, consulted, lastAns, lastPoll,
              frames, poisoned>>)

TRet ==
    /\ l <= Len(Rec) /\ R.e \in {"ret_wait", "ret_pending", "ret_forever"} /\ l' = l + 1
    /\ call' = "none"
    /\ lastPoll' = 0
    /\ Keep(<<watched, flag, queue, begun, yielded, gotIds, delivered, bytes, closed, consulted,
              lastAns, frames, poisoned, viol>>)

\* C11: `pending` only if the callback was consulted in this very call and said "nothing".
TRetPoll ==
    /\ Ev("ret_poll")
    /\ call' = "none"
    /\ lastPoll' = R.res
    /\ viol' = viol
         \cup Flag(R.res = 2 /\ ~(consulted /\ ~lastAns), "pending_without_consulting_callback")
         \cup Flag(R.res = 3 /\ ~closed, "closed_reported_but_not_closed")
         \* Closed is an absorbing answer: the infinite iterator has ended, it does not come back
         \cup Flag(lastPoll = 3 /\ R.res # 3, "iterator_yielded_after_it_ended")
    /\ Keep(<<watched, flag, queue, begun, yielded, gotIds, delivered, bytes, closed, consulted,
              lastAns, frames, poisoned>>)

(* handle *)
TClosedSet ==
    /\ Ev("closed_set")
    /\ closed' = TRUE
    /\ Keep(<<watched, flag, queue, begun, yielded, gotIds, delivered, bytes, call, consulted,
              lastAns, lastPoll, frames, poisoned, viol>>)

TClosedLoad ==
    /\ (Ev("closed_load") \/ Ev("is_closed"))
    /\ viol' = viol \cup Flag(closed /\ R.v # 1, "closed_not_sticky")
                    \cup Flag(~closed /\ R.v # 0, "closed_before_close")
    /\ Keep(<<watched, flag, queue, begun, yielded, gotIds, delivered, bytes, closed, call,
              consulted, lastAns, lastPoll, frames, poisoned>>)

\* While add_signal(s) is under way the signal is "being added" (-s in `watched`): a delivery the
\* new action has already caught may legitimately be yielded before add_signal returns.
TCallAdd ==
    /\ Ev("call_add")
    /\ watched' = watched \cup {0 - R.sig}
    /\ Keep(<<flag, queue, begun, yielded, gotIds, delivered, bytes, closed, call,
              consulted, lastAns, lastPoll, frames, poisoned, viol>>)

\* res: 1 = Ok, 2 = Err, 3 = the documented panic.  A rejected addition changes nothing.
TRetAdd ==
    /\ Ev("ret_add")
    /\ watched' = IF R.res = 1 THEN (watched \ {0 - R.sig}) \cup {R.sig} ELSE watched \ {0 - R.sig}
    /\ Keep(<<flag, queue, begun, yielded, gotIds, delivered, bytes, closed, call, consulted,
              lastAns, lastPoll, frames, poisoned, viol>>)

TIdsLock ==
    /\ Ev("ids_lock")
    /\ poisoned' = (poisoned \/ ~R.ok)
    /\ viol' = viol \cup Flag(~R.ok, "ids_mutex_poisoned")
                    \cup Flag(R.d > 0, "handler_lock")
    /\ Keep(<<watched, flag, queue, begun, yielded, gotIds, delivered, bytes, closed, call,
              consulted, lastAns, lastPoll, frames>>)

\* Everybody was blocked.  If the consumer sits in its blocking read with an unreported signal
\* of a watched slot (and so, necessarily, no byte in the pipe), a wake-up was lost (C09); if
\* the instance is closed, close() failed to release it (C11).
TStuck ==
    /\ Ev("stuck")
    /\ viol' = viol
         \cup Flag(~closed /\ \E s \in watched \cap Sigs : flag[s] \/ queue[s] # << >>,
                   "consumer_blocked_with_unreported_signal")
         \cup Flag(closed, "consumer_blocked_after_close")
    \* the harness now closes the instance from outside to release whoever is blocked
    /\ closed' = TRUE
    /\ bytes' = bytes + 1
    /\ Keep(<<watched, flag, queue, begun, yielded, gotIds, delivered, call,
              consulted, lastAns, lastPoll, frames, poisoned>>)

TBad ==
    /\ l <= Len(Rec) /\ R.e \in {"deadlock", "livelock", "panic", "aborted"} /\ l' = l + 1
    /\ viol' = viol \cup {R.e}
                    \cup Flag(R.e \in {"deadlock", "livelock"} /\ "hdepth" \in DOMAIN R /\ R.hdepth > 0,
                              "handler_blocked_or_spinning")
                    \cup Flag(R.e = "panic" /\ "inh" \in DOMAIN R /\ R.inh = 1, "handler_panicked")
                    \* an uncaught panic of wait / pending / forever / poll_signal / close (the documented
                    \* panics of add_signal are caught by the scenarios): the call neither returned nor
                    \* handed over what it had taken out of the slots
                    \cup Flag(R.e = "panic" /\ "inh" \in DOMAIN R /\ R.inh = 0, "library_call_panicked")
    /\ Keep(<<watched, flag, queue, begun, yielded, gotIds, delivered, bytes, closed, call,
              consulted, lastAns, lastPoll, frames, poisoned>>)

\* C12: once the instance and all its handles are gone nothing it registered is left behind.
TFinalActions ==
    /\ Ev("final_actions")
    /\ viol' = viol \cup Flag(R.n # 0, "registration_leaked_after_drop")
    /\ Keep(<<watched, flag, queue, begun, yielded, gotIds, delivered, bytes, closed, call,
              consulted, lastAns, lastPoll, frames, poisoned>>)

TSkip ==
    /\ l <= Len(Rec)
    /\ R.e \in {"ids_unlock", "call_close", "ret_close", "consumer_done", "instance_dropped",
                "done", "was_stuck"}
    /\ l' = l + 1
    /\ Keep(<<watched, flag, queue, begun, yielded, gotIds, delivered, bytes, closed, call,
              consulted, lastAns, lastPoll, frames, poisoned, viol>>)

TNext == \/ TReset \/ TDeliver \/ TReturn
         \/ /\ UNCHANGED <<returned, preds>>
            /\ \/ TFlagSet \/ TSlotPut \/ TWake \/ TCall \/ TRead \/ TCb \/ TFlush \/ TFlagTake
               \/ TFlagPeek \/ TSlotGet \/ TYield \/ TRet \/ TRetPoll \/ TClosedSet \/ TClosedLoad
               \/ TCallAdd \/ TRetAdd \/ TIdsLock \/ TStuck \/ TBad \/ TSkip \/ TFinalActions

TraceSpec == TInit /\ [][TNext]_vars

TraceAccepted ==
    LET d == TLCGet("stats").diameter IN
    IF d - 1 = Len(Rec) THEN TRUE
    ELSE Print(<<"TRACE_REJECTED", d, Rec[d]>>, FALSE)

----------------------------------------------------------------------------
C03set == {"handler_blocked_or_spinning", "handler_panicked", "handler_lock", "handler_hint", "handler_alloc", "handler_free", "handler_steps"}
C09set == {"consumer_blocked_with_unreported_signal", "delivery_woke_the_reader_but_stored_nothing",
           "pending_with_unreported_signal_and_no_wakeup",
           "pending_unarmed_with_unreported_signal", "deadlock", "livelock", "library_call_panicked"}
C10set == {"record_not_a_faithful_copy", "yield_of_unwatched_signal", "more_yields_than_deliveries",
           "record_of_no_delivery", "record_yielded_twice", "records_out_of_order", "library_call_panicked"}
C11set == {"pending_without_consulting_callback", "closed_not_sticky", "closed_before_close",
           "closed_reported_but_not_closed", "consumer_blocked_after_close", "library_call_panicked",
           "iterator_yielded_after_it_ended"}
C12set == {"ids_mutex_poisoned", "panic", "aborted", "registration_leaked_after_drop"}

V_C03 == viol \cap C03set = {}
V_C09 == viol \cap C09set = {}
V_C10 == viol \cap C10set = {}
V_C11 == viol \cap C11set = {}
V_C12 == viol \cap C12set = {}
=============================================================================
