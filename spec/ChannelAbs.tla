------------------------------ MODULE ChannelAbs ------------------------------
(***************************************************************************)
(* Property-level model of low_level::channel::Channel: a FIFO of SLOTS    *)
(* slots observed through calls, returns, cell accesses and payload drops. *)
(* Each operation has two internal linearisation points (a send reserves a *)
(* slot, later publishes; a recv takes the head, later gives the slot      *)
(* back); the trace spec lets TLC choose where between call and return     *)
(* they fall, so a real execution is accepted iff SOME placement explains  *)
(* it - this is the linearisability reading of C06.                        *)
(*                                                                         *)
(*  C06  values come out in the order their sends took effect, each once;  *)
(*       a send is discarded only when all SLOTS slots are in use (queued, *)
(*       being filled, or being emptied); a recv reports empty only if the *)
(*       queue was empty at some instant of the call.                      *)
(*  C07  a cell is written only when empty and taken only when full;       *)
(*       every value is dropped exactly once: by the receiver's owner, by  *)
(*       the send that found the channel full, or with the channel.        *)
(*  C08  no panic event exists in this model at all.                       *)
(***************************************************************************)
EXTENDS Naturals, Sequences, FiniteSets

CONSTANTS SLOTS,
          CheckDrops,  \* TRUE: destructor events are checked (C07); FALSE: they are only recorded
          StepBound   \* C08: own steps an operation may still need once everybody else is paused

VARIABLES q,        \* values whose send took effect and that were not taken yet
          inUse,    \* slots not in the free list
          ops,      \* frame -> [kind, phase, v]; frames are <<thread, depth>>
          cellst,   \* slot index -> 0 | value
          where,    \* value -> "sender" | "cell" | "receiver" | "gone"
          chanGone  \* the channel itself was dropped

absvars == <<q, inUse, ops, cellst, where, chanGone>>

NoOps == [f \in {} |-> 0]

AbsInit ==
    /\ q = << >>
    /\ inUse = 0
    /\ ops = NoOps
    /\ cellst = [i \in 1..SLOTS |-> 0]
    /\ where = [v \in {} |-> ""]
    /\ chanGone = FALSE

AbsReset ==
    /\ q' = << >>
    /\ inUse' = 0
    /\ ops' = NoOps
    /\ cellst' = [i \in 1..SLOTS |-> 0]
    /\ where' = [v \in {} |-> ""]
    /\ chanGone' = FALSE

Has(f) == f \in DOMAIN ops
SetOp(f, r) == ops' = [g \in DOMAIN ops \cup {f} |-> IF g = f THEN r ELSE ops[g]]
DelOp(f) == ops' = [g \in DOMAIN ops \ {f} |-> ops[g]]
SetWhere(v, w) == where' = [u \in DOMAIN where \cup {v} |-> IF u = v THEN w ELSE where[u]]

(* visible events *)
CallSend(f, v) ==
    /\ ~Has(f) /\ v \notin DOMAIN where /\ ~chanGone
    /\ SetOp(f, [kind |-> "send", phase |-> "called", v |-> v])
    /\ SetWhere(v, "sender")
    /\ UNCHANGED <<q, inUse, cellst, chanGone>>

CellWrite(f, i) ==
    /\ Has(f) /\ ops[f].kind = "send" /\ ops[f].phase = "reserved"
    /\ i \in 1..SLOTS /\ cellst[i] = 0
    /\ cellst' = [cellst EXCEPT ![i] = ops[f].v]
    /\ SetOp(f, [ops[f] EXCEPT !.phase = "written"])
    /\ SetWhere(ops[f].v, "cell")
    /\ UNCHANGED <<q, inUse, chanGone>>

RetSend(f, solo) ==
    /\ solo <= StepBound
    /\ Has(f) /\ ops[f].kind = "send"
    /\ \/ ops[f].phase = "committed"
       \/ ops[f].phase = "dropping" /\ where[ops[f].v] = "gone"
    /\ DelOp(f)
    /\ UNCHANGED <<q, inUse, cellst, where, chanGone>>

CallRecv(f) ==
    /\ ~Has(f) /\ ~chanGone
    /\ SetOp(f, [kind |-> "recv", phase |-> "called", v |-> 0])
    /\ UNCHANGED <<q, inUse, cellst, where, chanGone>>

CellTake(f, i) ==
    /\ Has(f) /\ ops[f].kind = "recv" /\ ops[f].phase = "taken"
    /\ i \in 1..SLOTS /\ cellst[i] = ops[f].v /\ ops[f].v # 0
    /\ cellst' = [cellst EXCEPT ![i] = 0]
    /\ SetOp(f, [ops[f] EXCEPT !.phase = "tookcell"])
    /\ SetWhere(ops[f].v, "receiver")
    /\ UNCHANGED <<q, inUse, chanGone>>

RetRecv(f, v, solo) ==
    /\ solo <= StepBound
    /\ Has(f) /\ ops[f].kind = "recv"
    /\ \/ ops[f].phase = "released" /\ ops[f].v = v /\ v # 0
       \/ ops[f].phase = "empty" /\ v = 0
    /\ DelOp(f)
    /\ UNCHANGED <<q, inUse, cellst, where, chanGone>>

\* The destructor of value v ran.
Drop(f, v) ==
    /\ v \in DOMAIN where
    /\ \/ ~CheckDrops
       \/ where[v] = "receiver" /\ \A g \in DOMAIN ops : ops[g].v # v   \* returned to the caller
       \/ where[v] = "sender" /\ \E g \in DOMAIN ops : ops[g].v = v /\ ops[g].phase = "dropping"
       \/ where[v] = "cell" /\ chanGone
    /\ SetWhere(v, "gone")
    /\ IF where[v] = "cell"
       THEN cellst' = [i \in 1..SLOTS |-> IF cellst[i] = v THEN 0 ELSE cellst[i]]
       ELSE UNCHANGED cellst
    /\ UNCHANGED <<q, inUse, ops, chanGone>>

ChanDrop ==
    /\ ~chanGone /\ DOMAIN ops = {}
    /\ chanGone' = TRUE
    /\ UNCHANGED <<q, inUse, ops, cellst, where>>

(* internal linearisation points *)
Reserve(f) ==
    /\ Has(f) /\ ops[f].kind = "send" /\ ops[f].phase = "called"
    /\ inUse < SLOTS
    /\ inUse' = inUse + 1
    /\ SetOp(f, [ops[f] EXCEPT !.phase = "reserved"])
    /\ UNCHANGED <<q, cellst, where, chanGone>>

DropFull(f) ==
    /\ Has(f) /\ ops[f].kind = "send" /\ ops[f].phase = "called"
    /\ inUse = SLOTS
    /\ SetOp(f, [ops[f] EXCEPT !.phase = "dropping"])
    /\ UNCHANGED <<q, inUse, cellst, where, chanGone>>

Commit(f) ==
    /\ Has(f) /\ ops[f].kind = "send" /\ ops[f].phase = "written"
    /\ q' = Append(q, ops[f].v)
    /\ SetOp(f, [ops[f] EXCEPT !.phase = "committed"])
    /\ UNCHANGED <<inUse, cellst, where, chanGone>>

Take(f) ==
    /\ Has(f) /\ ops[f].kind = "recv" /\ ops[f].phase = "called"
    /\ q # << >>
    /\ q' = Tail(q)
    /\ SetOp(f, [ops[f] EXCEPT !.phase = "taken", !.v = Head(q)])
    /\ UNCHANGED <<inUse, cellst, where, chanGone>>

Empty(f) ==
    /\ Has(f) /\ ops[f].kind = "recv" /\ ops[f].phase = "called"
    /\ q = << >>
    /\ SetOp(f, [ops[f] EXCEPT !.phase = "empty"])
    /\ UNCHANGED <<q, inUse, cellst, where, chanGone>>

Release(f) ==
    /\ Has(f) /\ ops[f].kind = "recv" /\ ops[f].phase = "tookcell"
    /\ inUse' = inUse - 1
    /\ SetOp(f, [ops[f] EXCEPT !.phase = "released"])
    /\ UNCHANGED <<q, cellst, where, chanGone>>

Internal(f) == Reserve(f) \/ DropFull(f) \/ Commit(f) \/ Take(f) \/ Empty(f) \/ Release(f)

\* Everything created has been destroyed exactly once and nothing is in progress.
Quiescent == DOMAIN ops = {} /\ (CheckDrops => \A v \in DOMAIN where : where[v] = "gone")

SlotsBounded == inUse <= SLOTS /\ Len(q) <= inUse
=============================================================================
