----------------------------- MODULE TraceFlagSB -----------------------------
(* The outcome FlagSB.tla forbids (ShutdownSeesArming) must never be observed on *)
(* the real actions: one record per litmus run of `probe flagsb`.               *)
EXTENDS Integers, Sequences, TLC, Json, IOUtils
Rec == ndJsonDeserialize(IOEnv.TRACE)
VARIABLES l, viol
tvars == <<l, viol>>
R == Rec[l]
TInit == l = 1 /\ viol = {}
TProbe ==
    /\ l <= Len(Rec) /\ R.e = "flagsb" /\ l' = l + 1
    /\ viol' = viol \cup (IF R.forbidden > 0 THEN {"armed_before_the_flag_action_yet_survived"} ELSE {})
TraceSpec == TInit /\ [][TProbe]_tvars
TraceAccepted ==
    LET d == TLCGet("stats").diameter IN
    IF d - 1 = Len(Rec) THEN TRUE ELSE Print(<<"TRACE_REJECTED", d, Rec[d]>>, FALSE)
V_C15 == viol = {}
=============================================================================
