------------------------------- MODULE TraceStep -------------------------------
(* A real delivery at every instruction boundary of a library operation       *)
(* (harness `probe step`: the operation runs under the x86 trap flag; at each  *)
(* step a forked copy of the process takes a kernel-delivered SIGURG nested on *)
(* the interrupted operation, lets the operation finish and reports).  This is *)
(* the quantifier of C03 - "for every instruction boundary ... on the same     *)
(* thread (nested)" - taken literally; Registry.tla / HalfLock.tla say why it  *)
(* must hold (HandlerNeverBlocked: a handler frame is enabled in every state,  *)
(* whatever the frame below it is doing), the records say that it does.        *)
(* One record per operation: how many boundaries, how many deliveries never    *)
(* returned (watchdog) or crashed, and the verdict classes of the rest.        *)
EXTENDS Integers, Sequences, TLC, Json, IOUtils

Rec == ndJsonDeserialize(IOEnv.TRACE)
VARIABLES l, viol
tvars == <<l, viol>>
R == Rec[l]
Flg(c, s) == IF c THEN {s} ELSE {}
Classes(r) == {r.steps[i][1] : i \in 1..Len(r.steps)}

TInit == l = 1 /\ viol = {}

TProbe ==
    /\ l <= Len(Rec) /\ R.e = "step" /\ l' = l + 1
    /\ IF R.status # "exited:0" \/ R.stride = 0
       THEN viol' = viol \cup {"stepper_failed"}
       ELSE viol' = viol
              \cup Flg(R.r.hung > 0, "delivery_never_returned")
              \cup Flg(R.r.died > 0, "delivery_or_interrupted_operation_crashed")
              \cup Flg(R.r.forks = 0, "nothing_explored")
              \cup (Classes(R.r) \ {"ok"})

TraceSpec == TInit /\ [][TProbe]_tvars
TraceAccepted ==
    LET d == TLCGet("stats").diameter IN
    IF d - 1 = Len(Rec) THEN TRUE ELSE Print(<<"TRACE_REJECTED", d, Rec[d]>>, FALSE)

V_Env == viol \cap {"stepper_failed", "nothing_explored"} = {}
V_C03 == viol \cap {"delivery_never_returned", "delivery_or_interrupted_operation_crashed",
                    "handler_allocated"} = {}
V_C01 == viol \cap {"removed_action_ran_after_removal", "delivery_never_returned"} = {}
V_C02 == viol \cap {"registered_action_not_once", "action_twice", "later_delivery_wrong",
                    "removed_action_ran_after_removal", "new_action_not_registered"} = {}
V_C04 == viol \cap {"previous_handler_not_once", "previous_handler_wrong_arguments",
                    "previous_handler_not_chained_afterwards", "delivery_never_returned"} = {}
V_C09 == viol \cap {"iterator_lost_the_signal", "unreported_signal_without_wakeup"} = {}
V_C10 == viol \cap {"iterator_invented_a_signal", "raw_records_not_one_per_delivery"} = {}
V_C13 == viol \cap {"pipe_bytes_not_one_per_delivery"} = {}
V_C15 == viol \cap {"flag_unset", "usize_flag_wrong"} = {}
=============================================================================
