----------------------------- MODULE HalfLockSC -----------------------------
(***************************************************************************)
(* The safety argument of half_lock.rs as an INDUCTIVE invariant, for the   *)
(* sequentially consistent reading of its (all SeqCst) operations.          *)
(*                                                                         *)
(* HalfLock.tla is the faithful model (frames, nested deliveries, weak      *)
(* memory, extracted orderings) and TLC exhausts it for 2-3 threads and a   *)
(* few stores.  This module answers the other question: why does it hold    *)
(* for executions of ANY length and any number of stores?  IndInv below is  *)
(* inductive (Apalache: Init => IndInv, IndInv /\ Next => IndInv') and      *)
(* implies NoUseAfterFree, so the property holds in every reachable state   *)
(* of the model with N readers - no bound on the number of read sections,   *)
(* stores or steps.  Snapshot identities are reused after free (as malloc   *)
(* does), so ABA is covered.                                                *)
(*                                                                         *)
(* Steps (half_lock.rs):                                                    *)
(*   reader  R_Gen  generation.load                 :139                    *)
(*           R_Inc  lock[gen % 2].fetch_add(1)      :141                    *)
(*           R_Ptr  data.load                       :150                    *)
(*           R_Dec  lock.fetch_sub(1) (guard drop)  :60                     *)
(*   writer  W_Swap data.swap(new)                  :96   (under the mutex) *)
(*           W_Pre  update_seen before the flip     :171                    *)
(*           W_Flip generation.fetch_add(1)         :172                    *)
(*           W_Loop while !all(seen) update_seen    :175-190                *)
(*           W_Free drop(Box::from_raw(old))        :100                    *)
(* ReadOrder ("count_then_ptr" is the code; "ptr_then_count" is the classic *)
(* mistake) and Barrier ("both" slots must have been seen idle / "none")    *)
(* are the parameters extracted from the running code (p_halflock.py).      *)
(***************************************************************************)
EXTENDS Integers, FiniteSets

CONSTANTS
    \* @type: Set(Int);
    Readers,
    \* @type: Set(Int);
    Ptrs,
    \* @type: Str;
    ReadOrder,
    \* @type: Str;
    Barrier

VARIABLES
    \* @type: Int;
    gen,
    \* @type: Int -> Int;
    cnt,
    \* @type: Int;
    ptr,
    \* @type: Set(Int);
    freed,
    \* @type: Int -> Str;
    rpc,
    \* @type: Int -> Int;
    rgen,
    \* @type: Int -> Int;
    rptr,
    \* @type: Str;
    wpc,
    \* @type: Int;
    wold,
    \* @type: Int -> Bool;
    seen

vars == <<gen, cnt, ptr, freed, rpc, rgen, rptr, wpc, wold, seen>>

Slots == {0, 1}
RPcs == {"idle", "g", "i", "gp", "p"}     \* "gp": pointer loaded before the count (variant only)
WPcs == {"idle", "pre0", "pre1", "flip", "loop", "upd0", "upd1", "free"}
InBarrier == wpc \in {"pre0", "pre1", "flip", "loop", "upd0", "upd1", "free"}
Holding(r) == rpc[r] \in {"p", "gp"}
Counted(r) == rpc[r] \in {"i", "p"}

CInit ==
    /\ Readers = {1, 2, 3}
    /\ Ptrs = {0, 1, 2, 3, 4, 5}
    /\ ReadOrder = "count_then_ptr"
    /\ Barrier = "both"

\* the two classic mistakes, for the self-test: the induction must fail for them
CInitPtrFirst == Readers = {1, 2, 3} /\ Ptrs = {0, 1, 2, 3, 4, 5} /\ ReadOrder = "ptr_then_count" /\ Barrier = "both"
CInitNoBarrier == Readers = {1, 2, 3} /\ Ptrs = {0, 1, 2, 3, 4, 5} /\ ReadOrder = "count_then_ptr" /\ Barrier = "none"
\* non-vacuity of IndInit: a state inside IndInv with the writer about to free and a reader holding
Witness == ~(wpc = "free" /\ \E r \in Readers : rpc[r] = "p")

Init ==
    /\ gen = 0 /\ cnt = [s \in Slots |-> 0] /\ ptr = 0 /\ freed = {}
    /\ rpc = [r \in Readers |-> "idle"] /\ rgen = [r \in Readers |-> 0]
    /\ rptr = [r \in Readers |-> 0]
    /\ wpc = "idle" /\ wold = 0 /\ seen = [s \in Slots |-> FALSE]

----------------------------------------------------------------------------
R_Gen(r) ==
    /\ rpc[r] = "idle"
    /\ rgen' = [rgen EXCEPT ![r] = gen]
    /\ rpc' = [rpc EXCEPT ![r] = "g"]
    /\ UNCHANGED <<gen, cnt, ptr, freed, rptr, wpc, wold, seen>>

R_Inc(r) ==
    /\ \/ rpc[r] = "g" /\ ReadOrder = "count_then_ptr" /\ rpc' = [rpc EXCEPT ![r] = "i"]
       \/ rpc[r] = "gp" /\ rpc' = [rpc EXCEPT ![r] = "p"]
    /\ cnt' = [cnt EXCEPT ![rgen[r]] = @ + 1]
    /\ UNCHANGED <<gen, ptr, freed, rgen, rptr, wpc, wold, seen>>

R_Ptr(r) ==
    /\ \/ rpc[r] = "i" /\ rpc' = [rpc EXCEPT ![r] = "p"]
       \/ rpc[r] = "g" /\ ReadOrder = "ptr_then_count" /\ rpc' = [rpc EXCEPT ![r] = "gp"]
    /\ rptr' = [rptr EXCEPT ![r] = ptr]
    /\ UNCHANGED <<gen, cnt, ptr, freed, rgen, wpc, wold, seen>>

R_Dec(r) ==
    /\ rpc[r] = "p"
    /\ cnt' = [cnt EXCEPT ![rgen[r]] = @ - 1]
    /\ rpc' = [rpc EXCEPT ![r] = "idle"]
    /\ UNCHANGED <<gen, ptr, freed, rgen, rptr, wpc, wold, seen>>

\* the allocator hands out anything that is not allocated right now - also an address that was
\* freed earlier
Allocated == {ptr} \cup (IF InBarrier THEN {wold} ELSE {})

W_Swap ==
    /\ wpc = "idle"
    /\ \E p \in Ptrs \ Allocated :
         /\ ptr' = p
         /\ freed' = freed \ {p}
    /\ wold' = ptr
    /\ seen' = [s \in Slots |-> Barrier = "none"]
    /\ wpc' = "pre0"
    /\ UNCHANGED <<gen, cnt, rpc, rgen, rptr>>

See(s) == seen' = [seen EXCEPT ![s] = @ \/ cnt[s] = 0]

W_Pre ==
    /\ \/ wpc = "pre0" /\ See(0) /\ wpc' = "pre1"
       \/ wpc = "pre1" /\ See(1) /\ wpc' = "flip"
    /\ UNCHANGED <<gen, cnt, ptr, freed, rpc, rgen, rptr, wold>>

W_Flip ==
    /\ wpc = "flip"
    /\ gen' = 1 - gen                  \* only gen % 2 is ever used
    /\ wpc' = "loop"
    /\ UNCHANGED <<cnt, ptr, freed, rpc, rgen, rptr, wold, seen>>

W_Loop ==
    /\ \/ wpc = "loop" /\ seen[0] /\ seen[1] /\ wpc' = "free" /\ UNCHANGED seen
       \/ wpc = "loop" /\ ~(seen[0] /\ seen[1]) /\ wpc' = "upd0" /\ UNCHANGED seen
       \/ wpc = "upd0" /\ See(0) /\ wpc' = "upd1"
       \/ wpc = "upd1" /\ See(1) /\ wpc' = "loop"
    /\ UNCHANGED <<gen, cnt, ptr, freed, rpc, rgen, rptr, wold>>

W_Free ==
    /\ wpc = "free"
    /\ freed' = freed \cup {wold}
    /\ wpc' = "idle"
    /\ UNCHANGED <<gen, cnt, ptr, rpc, rgen, rptr, wold, seen>>

Next ==
    \/ \E r \in Readers : R_Gen(r) \/ R_Inc(r) \/ R_Ptr(r) \/ R_Dec(r)
    \/ W_Swap \/ W_Pre \/ W_Flip \/ W_Loop \/ W_Free

Spec == Init /\ [][Next]_vars

----------------------------------------------------------------------------
\* C01: no read section ever holds a snapshot that has been released.
NoUseAfterFree == \A r \in Readers : Holding(r) => rptr[r] \notin freed

TypeOK ==
    /\ gen \in Slots
    /\ cnt \in [Slots -> Int]
    /\ \A s \in Slots : cnt[s] >= 0 /\ cnt[s] <= Cardinality(Readers)
    /\ ptr \in Ptrs
    /\ freed \in SUBSET Ptrs
    /\ rpc \in [Readers -> RPcs]
    /\ rgen \in [Readers -> Slots]
    /\ rptr \in [Readers -> Ptrs]
    /\ wpc \in WPcs
    /\ wold \in Ptrs
    /\ seen \in [Slots -> BOOLEAN]

\* each counter is exactly the number of read sections that incremented it and have not left
CountersExact ==
    \A s \in Slots : cnt[s] = Cardinality({r \in Readers : Counted(r) /\ rgen[r] = s})

\* a read section holding a snapshot that is no longer current pins the writer that replaced it:
\* that writer is still in its barrier, for exactly that snapshot, and has not yet seen the
\* section's slot idle (nor has it reached the free)
HeldPinsWriter ==
    \A r \in Readers : rpc[r] = "p" =>
        \/ rptr[r] = ptr
        \/ /\ wpc \in {"pre0", "pre1", "flip", "loop", "upd0", "upd1"}
           /\ wold = rptr[r]
           /\ ~seen[rgen[r]]

\* "free" is reached only with both slots seen idle
FreeMeansSeen == wpc = "free" => seen[0] /\ seen[1]

Heap ==
    /\ ptr \notin freed
    /\ InBarrier => wold \notin freed /\ wold # ptr

NoEarlyPtr == \A r \in Readers : rpc[r] # "gp"     \* the code never holds a pointer uncounted

IndInv == TypeOK /\ CountersExact /\ HeldPinsWriter /\ FreeMeansSeen /\ Heap /\ NoEarlyPtr
          /\ NoUseAfterFree

\* Apalache: start anywhere inside IndInv
IndInit == TypeOK /\ IndInv
=============================================================================
