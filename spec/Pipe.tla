-------------------------------- MODULE Pipe --------------------------------
(***************************************************************************)
(* low_level/pipe.rs: the self-pipe trick.  A descriptor (pipe, stream or  *)
(* datagram socket; blocking or not; empty, partly filled or full) is      *)
(* handed over with register_raw; every delivery makes one attempt to      *)
(* write one byte and must never block; unregister closes the descriptor.  *)
(*                                                                         *)
(*   RegRaw     pipe.rs:177-195  zero-length send() probe picks the wake   *)
(*              method; the write path sets O_NONBLOCK (:102-114)          *)
(*   Wake       pipe.rs:134-152  write() or send(MSG_DONTWAIT), errors     *)
(*              ignored                                                    *)
(*   Drop       pipe.rs:126-132  close()                                   *)
(*   Reject     the registration is refused: while setting O_NONBLOCK      *)
(*              (pipe.rs:191, a descriptor fcntl(F_SETFL) refuses, e.g.    *)
(*              O_PATH), by the OS (Err from the registry) or by the       *)
(*              forbidden check (panic); the descriptor was handed over,   *)
(*              so it is closed - once.                                    *)
(* Parameters extracted from probes of the running code: Method[kind],     *)
(* SetsNonblock (does the write path switch the descriptor to              *)
(* non-blocking) and RejectCloses[stage] (close() calls observed on the    *)
(* descriptor when the registration is refused at that stage).             *)
(***************************************************************************)
EXTENDS Naturals, Sequences, TLC

CONSTANTS Method,        \* [kind -> "send" | "write"]: what RegRaw chose
          SetsNonblock,  \* TRUE (the code)
          RejectCloses,  \* [stage -> number of close() calls on the descriptor]
          Cap,           \* capacity of the model pipe
          MaxOps

Kinds == {"pipe", "pipe_nonblock", "stream", "dgram"}
Unsettable == "opath"          \* a descriptor that is not a socket and refuses F_SETFL
Stages == {"setflags", "registry_err", "registry_panic"}

VARIABLES kind, nonblock, bytes, state, delivered, sinceDrain, blockedForever, closes, ops
pvars == <<kind, nonblock, bytes, state, delivered, sinceDrain, blockedForever, closes, ops>>

PInit ==
    /\ kind \in Kinds \cup {Unsettable}
    /\ nonblock = (kind = "pipe_nonblock")
    /\ bytes \in {0, 1, Cap}
    /\ state = "created" /\ delivered = 0 /\ sinceDrain = 0 /\ blockedForever = FALSE
    /\ closes = 0 /\ ops = 0

RegRaw ==
    /\ state = "created" /\ ops < MaxOps /\ kind # Unsettable
    /\ nonblock' = (nonblock \/ (Method[kind] = "write" /\ SetsNonblock))
    /\ state' = "registered" /\ ops' = ops + 1
    /\ UNCHANGED <<kind, bytes, delivered, sinceDrain, blockedForever, closes>>

\* The registration is refused; whatever the stage, the descriptor's owner is gone.
Reject(stage) ==
    /\ state = "created" /\ ops < MaxOps
    /\ IF kind = Unsettable THEN stage = "setflags" ELSE stage # "setflags"
    /\ state' = "rejected" /\ closes' = closes + RejectCloses[stage] /\ ops' = ops + 1
    /\ UNCHANGED <<kind, nonblock, bytes, delivered, sinceDrain, blockedForever>>

\* One delivery: one attempt to put one byte in.
Wake ==
    /\ state = "registered" /\ ops < MaxOps /\ ~blockedForever
    /\ delivered' = delivered + 1 /\ ops' = ops + 1
    /\ IF bytes < Cap
       THEN /\ bytes' = bytes + 1 /\ sinceDrain' = sinceDrain + 1 /\ UNCHANGED blockedForever
       ELSE \* full: send(MSG_DONTWAIT) and a non-blocking write fail with EAGAIN; a blocking
            \* write() would sit in the signal handler forever
            /\ blockedForever' = (Method[kind] = "write" /\ ~nonblock)
            /\ UNCHANGED <<bytes, sinceDrain>>
    /\ UNCHANGED <<kind, nonblock, state, closes>>

Drain ==
    /\ ops < MaxOps /\ bytes > 0
    /\ bytes' = 0 /\ sinceDrain' = 0 /\ ops' = ops + 1
    /\ UNCHANGED <<kind, nonblock, state, delivered, blockedForever, closes>>

Unregister ==
    /\ state = "registered" /\ ops < MaxOps /\ ~blockedForever
    /\ state' = "closed" /\ closes' = closes + 1 /\ ops' = ops + 1
    /\ UNCHANGED <<kind, nonblock, bytes, delivered, sinceDrain, blockedForever>>

PNext == RegRaw \/ (\E st \in Stages : Reject(st)) \/ Wake \/ Drain \/ Unregister
         \/ UNCHANGED pvars
PSpec == PInit /\ [][PNext]_pvars

\* C13
WakeNeverBlocks == ~blockedForever
ClosedExactlyOnce == closes <= 1 /\ (state \in {"closed", "rejected"} <=> closes = 1)
BytesLeqDeliveries == sinceDrain <= delivered
=============================================================================
