------------------------------ MODULE Delivery ------------------------------
(***************************************************************************)
(* C12 (and the registration side of C10): one Signals / SignalsInfo       *)
(* instance, its handles, and the table of what it registered              *)
(* (iterator/backend.rs).                                                   *)
(*                                                                         *)
(*   add_signal(s)   :192-204   lock the id table; if s is recorded, done;  *)
(*                              otherwise register an action with the       *)
(*                              registry, record its id; unlock             *)
(*   rejected add               panics (forbidden / out of range) or errs  *)
(*                              (the OS refuses) while HOLDING the lock:    *)
(*                              the lock is poisoned, later users ignore    *)
(*                              the poison (fix D2)                         *)
(*   drop of the last owner :64-71  unregister every recorded id            *)
(*                                                                         *)
(* Owners are the instance and the handle clones; each is dropped once, on  *)
(* any thread; who is last is decided atomically (Arc).  AddAtomic - the id *)
(* table's lock is held from the look-up to the recording - is extracted    *)
(* from the solo signature of add_signal (one lock/unlock pair of the table *)
(* enclosing all registry operations).  LastOwner = "arc" is the code;      *)
(* "count_check" is the racy variant (each owner looks at the count before  *)
(* it lets go) kept as a model parameter for the self-test.                 *)
(***************************************************************************)
EXTENDS Naturals, FiniteSets, Sequences, TLC

CONSTANTS Threads,      \* each runs Script[t]
          Script,       \* [Threads -> Seq of <<"add", s>> | <<"bad", s>> | <<"drop">>]
          Sigs,
          AddAtomic,    \* TRUE (the code)
          LastOwner     \* "arc" (the code) | "count_check"

VARIABLES pc, ip, table, registry, nextId, lockedBy, owners, seenCount, held, poisoned

vars == <<pc, ip, table, registry, nextId, lockedBy, owners, seenCount, held, poisoned>>

NOwners == Cardinality({t \in Threads : \E i \in 1..Len(Script[t]) : Script[t][i][1] = "drop"})

Init ==
    /\ pc = [t \in Threads |-> "next"] /\ ip = [t \in Threads |-> 1]
    /\ table = [s \in Sigs |-> 0] /\ registry = {} /\ nextId = 1
    /\ lockedBy = 0 /\ owners = NOwners /\ seenCount = [t \in Threads |-> 0]
    /\ held = [t \in Threads |-> 0] /\ poisoned = FALSE

Op(t) == Script[t][ip[t]]
Done(t) == ip[t] > Len(Script[t])
Goto(t, p) == pc' = [pc EXCEPT ![t] = p]
Advance(t) == ip' = [ip EXCEPT ![t] = @ + 1]

Start(t) ==
    /\ pc[t] = "next" /\ ~Done(t)
    /\ Goto(t, IF Op(t)[1] = "drop" THEN "d_count" ELSE "a_lock")
    /\ UNCHANGED <<ip, table, registry, nextId, lockedBy, owners, seenCount, held, poisoned>>

\* ---- add_signal
A_Lock(t) ==
    /\ pc[t] = "a_lock" /\ lockedBy = 0
    /\ lockedBy' = t
    /\ Goto(t, "a_check")
    /\ UNCHANGED <<ip, table, registry, nextId, owners, seenCount, held, poisoned>>

A_Check(t) ==
    /\ pc[t] = "a_check" /\ lockedBy = t
    /\ LET s == Op(t)[2] IN
       IF Op(t)[1] = "bad"
       THEN \* the documented panic / error leaves the lock poisoned and released
            /\ poisoned' = TRUE /\ lockedBy' = 0 /\ Goto(t, "next") /\ Advance(t)
            /\ UNCHANGED <<table, registry, nextId, owners, seenCount, held>>
       ELSE IF table[s] # 0
       THEN /\ lockedBy' = 0 /\ Goto(t, "next") /\ Advance(t)
            /\ UNCHANGED <<table, registry, nextId, owners, seenCount, held, poisoned>>
       ELSE /\ Goto(t, "a_register")
            /\ lockedBy' = IF AddAtomic THEN t ELSE 0
            /\ UNCHANGED <<ip, table, registry, nextId, owners, seenCount, held, poisoned>>

A_Register(t) ==
    /\ pc[t] = "a_register"
    /\ registry' = registry \cup {<<Op(t)[2], nextId>>}
    /\ held' = [held EXCEPT ![t] = nextId]
    /\ nextId' = nextId + 1
    /\ Goto(t, IF AddAtomic THEN "a_record" ELSE "a_relock")
    /\ UNCHANGED <<ip, table, lockedBy, owners, seenCount, poisoned>>

A_Relock(t) ==
    /\ pc[t] = "a_relock" /\ lockedBy = 0
    /\ lockedBy' = t /\ Goto(t, "a_record")
    /\ UNCHANGED <<ip, table, registry, nextId, owners, seenCount, held, poisoned>>

A_Record(t) ==
    /\ pc[t] = "a_record" /\ lockedBy = t
    /\ table' = [table EXCEPT ![Op(t)[2]] = held[t]]
    /\ lockedBy' = 0 /\ Goto(t, "next") /\ Advance(t)
    /\ UNCHANGED <<registry, nextId, owners, seenCount, held, poisoned>>

\* ---- an owner goes away
D_Count(t) ==
    /\ pc[t] = "d_count"
    /\ seenCount' = [seenCount EXCEPT ![t] = owners]
    /\ IF LastOwner = "arc"
       THEN \* the decrement and the decision are one atomic step
            /\ owners' = owners - 1
            /\ Goto(t, IF owners = 1 THEN "d_lock" ELSE "d_done")
       ELSE /\ UNCHANGED owners
            /\ Goto(t, "d_release")
    /\ UNCHANGED <<ip, table, registry, nextId, lockedBy, held, poisoned>>

\* the racy variant: look first, let go later
D_Release(t) ==
    /\ pc[t] = "d_release"
    /\ owners' = owners - 1
    /\ Goto(t, IF seenCount[t] = 1 THEN "d_lock" ELSE "d_done")
    /\ UNCHANGED <<ip, table, registry, nextId, lockedBy, seenCount, held, poisoned>>

D_Lock(t) ==
    /\ pc[t] = "d_lock" /\ lockedBy = 0          \* a poisoned lock is taken all the same
    /\ lockedBy' = t /\ Goto(t, "d_unreg")
    /\ UNCHANGED <<ip, table, registry, nextId, owners, seenCount, held, poisoned>>

D_Unreg(t) ==
    /\ pc[t] = "d_unreg" /\ lockedBy = t
    /\ registry' = {e \in registry : table[e[1]] # e[2]}
    /\ table' = [s \in Sigs |-> 0]
    /\ lockedBy' = 0 /\ Goto(t, "d_done")
    /\ UNCHANGED <<ip, nextId, owners, seenCount, held, poisoned>>

D_Done(t) ==
    /\ pc[t] = "d_done" /\ Goto(t, "next") /\ Advance(t)
    /\ UNCHANGED <<table, registry, nextId, lockedBy, owners, seenCount, held, poisoned>>

Step(t) == Start(t) \/ A_Lock(t) \/ A_Check(t) \/ A_Register(t) \/ A_Relock(t) \/ A_Record(t)
           \/ D_Count(t) \/ D_Release(t) \/ D_Lock(t) \/ D_Unreg(t) \/ D_Done(t)
AllDone == \A t \in Threads : Done(t) /\ pc[t] = "next"
Next == (\E t \in Threads : Step(t)) \/ (AllDone /\ UNCHANGED vars)
Spec == Init /\ [][Next]_vars

----------------------------------------------------------------------------
\* re-adding a watched signal is a no-op: never two actions of this instance for one signal
NoDoubleRegistration ==
    \A s \in Sigs : Cardinality({e \in registry : e[1] = s}) <= 1
\* once the instance and all its handles are gone nothing it registered is left
NothingLeft == (AllDone /\ owners = 0) => registry = {}
\* nobody is wedged by the poisoned lock (deadlock check) and the table only names live actions
TableNamesLive == \A s \in Sigs : table[s] # 0 => <<s, table[s]>> \in registry
=============================================================================
