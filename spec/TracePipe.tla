------------------------------ MODULE TracePipe ------------------------------
(* C13: forked probes of the self-pipe with real descriptors of every kind and fill level. *)
EXTENDS Naturals, Sequences, TLC, Json, IOUtils

Rec == ndJsonDeserialize(IOEnv.TRACE)
VARIABLES l, viol
tvars == <<l, viol>>
R == Rec[l]
Flg(c, s) == IF c THEN {s} ELSE {}

TInit == l = 1 /\ viol = {}

TPipe ==
    /\ l <= Len(Rec) /\ R.e = "pipe" /\ l' = l + 1
    /\ IF R.status # "exited:0"
       THEN viol' = viol \cup Flg(R.status = "signaled:14", "delivery_blocked_on_the_pipe")
                         \cup Flg(R.status # "signaled:14", "probe_died")
       ELSE viol' = viol
              \cup Flg(R.r.got > R.burst, "more_bytes_than_deliveries")
              \* a burst of up to 3 fits into every kind of descriptor that was not full: one byte each;
              \* a long burst may fill the descriptor itself (a pipe holds 65536 bytes, a stream socket
              \* a few hundred one-byte messages, a datagram socket about ten): from then on the one
              \* attempt per delivery fails, as the property allows - at least one byte, never more
              \* than deliveries
              \cup Flg(R.fill # "full" /\ R.burst <= 3 /\ R.r.got # R.burst, "not_one_byte_per_delivery")
              \cup Flg(R.fill # "full" /\ R.burst > 3 /\ R.r.got < 1, "no_byte_although_delivered")
              \cup Flg(R.r.removed # 1 \/ R.r.closed # 1, "descriptor_not_closed_on_unregister")
              \cup Flg(R.r.closes_before # 0, "descriptor_closed_while_registered")
              \cup Flg(R.r.closes # 1, "descriptor_not_closed_exactly_once")
              \cup Flg(R.r.stray # 0, "written_to_after_close")
              \cup Flg(R.r.tokens # <<"delivered">>, "deliveries_did_not_return")

\* A registration refused at any stage: the descriptor handed over (if it was one) is closed by
\* exactly one close(), the outcome class is the documented one.
TPipeReject ==
    /\ l <= Len(Rec) /\ R.e = "pipe_reject" /\ l' = l + 1
    /\ viol' = viol
         \cup Flg(R.status # "exited:0", "probe_died")
         \cup Flg(R.status = "exited:0" /\ R.r.closed # 1, "descriptor_leaked_by_rejected_registration")
         \cup Flg(R.status = "exited:0" /\ R.r.was_open = 1 /\ R.r.closes # 1,
                  "descriptor_not_closed_exactly_once_by_rejected_registration")
         \cup Flg(R.status = "exited:0" /\ R.r.was_open = 0 /\ R.r.closes > 1,
                  "invalid_descriptor_closed_more_than_once")
         \cup Flg(R.status = "exited:0" /\ R.r.class = "ok", "registration_not_rejected")
         \cup Flg(R.status = "exited:0" /\ R.what = "forbidden" /\ R.fdkind # "opath" /\ R.r.class # "panic",
                  "wrong_outcome_class")
         \cup Flg(R.status = "exited:0" /\ R.what # "forbidden" /\ R.r.class # "err", "wrong_outcome_class")

\* The iterators wake their own self-pipe (backend.rs wake_readers): a blocking UnixStream pair.
TIterPipe ==
    /\ l <= Len(Rec) /\ R.e = "iter_pipe" /\ l' = l + 1
    /\ IF R.status # "exited:0"
       THEN viol' = viol \cup Flg(R.status = "signaled:14", "delivery_blocked_on_the_iterator_pipe")
                         \cup Flg(R.status # "signaled:14", "probe_died")
       ELSE viol' = viol
              \cup Flg(R.r.tokens # <<"delivered">>, "deliveries_did_not_return")
              \cup Flg(R.r.got > R.burst, "more_bytes_than_deliveries")
              \cup Flg(R.fill = "empty" /\ R.burst <= 3 /\ R.r.got # R.burst, "not_one_byte_per_delivery")
              \cup Flg(R.fill = "empty" /\ R.burst > 3 /\ R.r.got < 1, "no_byte_although_delivered")
              \cup Flg(R.r.yielded # 1, "delivered_signal_not_reported")

\* Tear-down of an iterator instance (backend.rs Handle / DeliveryState): the write end is dropped
\* once, and only after the last action that writes to it is gone - a signal delivered while it is
\* being dropped writes nowhere (the probe re-uses the descriptor number for an unrelated socket).
TIterTeardown ==
    /\ l <= Len(Rec) /\ R.e = "iter_teardown" /\ l' = l + 1
    /\ viol' = viol
         \cup Flg(R.status # "exited:0", "probe_died")
         \cup Flg(R.status = "exited:0" /\ R.r.drops # 1, "write_end_not_dropped_exactly_once")
         \cup Flg(R.status = "exited:0" /\ R.r.stray # 0, "written_to_after_close")

\* Duplicates of one write end registered for two signals (Pipe.tla: the registration owns the
\* descriptor NUMBER it was given, not the open file behind it): removing one registration closes
\* that number only; 2 deliveries before and 3 after the removal are 5 bytes, and no end of file.
TPipeSibling ==
    /\ l <= Len(Rec) /\ R.e = "pipe_sibling" /\ l' = l + 1
    /\ IF R.status # "exited:0"
       THEN viol' = viol \cup {"sibling_probe_died"}
       ELSE viol' = viol
              \cup Flg(R.r.before + R.r.after # 5, "sibling_descriptor_stopped_delivering")
              \cup Flg(R.r.eof = 1, "write_side_shut_down_for_every_duplicate")

TraceSpec == TInit /\ [][TPipe \/ TPipeReject \/ TIterPipe \/ TIterTeardown \/ TPipeSibling]_tvars
TraceAccepted ==
    LET d == TLCGet("stats").diameter IN
    IF d - 1 = Len(Rec) THEN TRUE ELSE Print(<<"TRACE_REJECTED", d, Rec[d]>>, FALSE)
V_C13 == viol = {}
\* C03: a delivery whose self-pipe wake blocks or spins on a full descriptor waits for somebody else.
V_C03 == viol \cap {"delivery_blocked_on_the_pipe", "delivery_blocked_on_the_iterator_pipe"} = {}
=============================================================================
