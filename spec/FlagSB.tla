------------------------------- MODULE FlagSB -------------------------------
(***************************************************************************)
(* C15, the part that depends on memory orderings (flag.rs:153-197: "SeqCst *)
(* store / load inside the action").  One delivery runs two actions in       *)
(* registration order on thread H:                                          *)
(*     H1  F.store(true, OrdFlagStore)         flag::register      :164    *)
(*     H2  c := C.load(OrdCondLoad); if c then _exit(status)               *)
(*                                  register_conditional_shutdown  :189    *)
(* while the application, on thread A, arms the condition and then looks at  *)
(* the flag:                                                                 *)
(*     A1  C.store(true, SeqCst)      A2  f := F.load(SeqCst)               *)
(* If A saw the flag still unset, its arming precedes the flag action of     *)
(* this delivery, hence the shutdown action of the same delivery - which     *)
(* runs after the flag action - must find the condition armed: "terminates   *)
(* ... if and only if its condition is true at that moment".  Under Mem.tla  *)
(* this holds iff both accesses of the actions are SeqCst (store buffering). *)
(* The orderings of flag.rs are applied to the caller's std atomics and      *)
(* cannot be extracted by the shim; the binding is the litmus `probe flagsb` *)
(* (the outcome this module forbids must never be observed on the real       *)
(* actions), and TLC documents that the declared orderings are needed.       *)
(***************************************************************************)
EXTENDS Naturals, Sequences, TLC

CONSTANTS OrdFlagStore, OrdCondLoad

F == 1
C == 2
H == 1
A == 2
InitV(l) == 0

VARIABLES hist, tv, scv, cver, race, hpc, apc, hsaw, asaw
M == INSTANCE Mem WITH Locs <- {F, C}, Cells <- {}, MThreads <- {H, A}, InitVal <- InitV
vars == <<hist, tv, scv, cver, race, hpc, apc, hsaw, asaw>>

Init == M!MemInit /\ hpc = "store" /\ apc = "store" /\ hsaw = 2 /\ asaw = 2

H_Store == /\ hpc = "store" /\ M!MStore(H, F, OrdFlagStore, 1) /\ hpc' = "load"
           /\ UNCHANGED <<apc, hsaw, asaw>>
H_Load == /\ hpc = "load"
          /\ \E ts \in M!ReadTs(H, C, OrdCondLoad) :
               M!MRead(H, C, OrdCondLoad, ts) /\ hsaw' = M!ValAt(C, ts)
          /\ hpc' = "done" /\ UNCHANGED <<apc, asaw>>
A_Store == /\ apc = "store" /\ M!MStore(A, C, "SeqCst", 1) /\ apc' = "load"
           /\ UNCHANGED <<hpc, hsaw, asaw>>
A_Load == /\ apc = "load"
          /\ \E ts \in M!ReadTs(A, F, "SeqCst") :
               M!MRead(A, F, "SeqCst", ts) /\ asaw' = M!ValAt(F, ts)
          /\ apc' = "done" /\ UNCHANGED <<hpc, hsaw>>

Next == H_Store \/ H_Load \/ A_Store \/ A_Load \/ (hpc = "done" /\ apc = "done" /\ UNCHANGED vars)
Spec == Init /\ [][Next]_vars

\* armed before the flag action ran, yet the shutdown of that delivery saw "unarmed"
ShutdownSeesArming == ~(hpc = "done" /\ apc = "done" /\ asaw = 0 /\ hsaw = 0)
=============================================================================
