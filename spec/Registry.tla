------------------------------ MODULE Registry ------------------------------
(***************************************************************************)
(* Mid-level model of signal-hook-registry/src/lib.rs: the global registry *)
(* (copy-on-write snapshots `data`, the race `fallback`), the dispatcher   *)
(* and the kernel's per-signal disposition.  The two half-locks appear     *)
(* through the interface HalfLock.tla was shown to provide (HalfLockAbs):  *)
(* a reader atomically takes the snapshot current at its pointer load and  *)
(* holds it until its guard drops; a writer publishes with one swap and    *)
(* can free the replaced snapshot only when nobody holds it.               *)
(*                                                                         *)
(* mutators, line by line (lib.rs:577-679)                                 *)
(*   M_Lock      globals.data.write()            :584/:645/:667            *)
(*   M_Clone     SignalData::clone(&lock), take id, edit the copy          *)
(*   M_Detect    Prev::detect(signal)             :612  (vacant entry)     *)
(*   M_FPublish  race_fallback.write().store(..)  :609-612 (swap)          *)
(*   M_FFree     ... its write barrier + drop of the old fallback          *)
(*   M_Sigaction Slot::new -> sigaction()         :614                     *)
(*   M_Publish   lock.store(sigdata)              :620 (swap)              *)
(*   M_Free      ... write barrier + drop of the old snapshot (this is     *)
(*               where removed actions are released)                       *)
(*   M_Return    guard drop + return                                       *)
(* dispatcher (lib.rs:352-388)                                             *)
(*   H_OpenF, H_OpenD   the two read() calls     :354,:355                 *)
(*   H_Prev / H_FallbackPrev   Prev::execute     :358 / :383               *)
(*   H_Act       one registered action            :375-377                 *)
(*   H_Close     both guards dropped                                       *)
(* kernel                                                                  *)
(*   Deliver(t, s)   the kernel invokes the disposition of s on thread t   *)
(*                   at any boundary: the library's dispatcher if it is    *)
(*                   the disposition, else the foreign handler / nothing.  *)
(*                                                                         *)
(* Parameters extracted from the running code: DispatchOrder (which guard  *)
(* the dispatcher takes first) and RegisterOrder (fallback stored before   *)
(* or after sigaction()).                                                  *)
(***************************************************************************)
EXTENDS Naturals, Sequences, FiniteSets, TLC

CONSTANTS Sigs,            \* signal numbers
          Mutators,        \* thread ids running scripts
          Script,          \* [Mutators -> Seq(<<"reg", sig, tag>> | <<"unreg", tag>> | <<"unregsig", sig>>)]
          Others,          \* further threads that only receive signals
          PrevKind,        \* [Sigs -> "dfl" | "ign" | "plain" | "info"]: disposition before the library
          MaxDeliveries, MaxNested,
          DispatchOrder,   \* "F_then_D" (the code) | "D_then_F"
          RegisterOrder,   \* "fallback_then_sigaction" (the code) | "sigaction_then_fallback"
          FallbackGrace    \* TRUE (the code): the fallback store waits for readers of the old one

Threads == Mutators \cup Others
NoSlot == [present |-> FALSE, prev |-> "dfl", acts |-> << >>]
EmptyData == [s \in Sigs |-> NoSlot]
NoFallback == [sig |-> 0, prev |-> "dfl"]

VARIABLES disp,       \* kernel: signal -> "dfl" | "ign" | "plain" | "info" | "lib"
          dsnap, dcur, dlive,   \* data snapshots: id -> content; current; not yet freed
          fsnap, fcur, flive,   \* fallback snapshots
          nsnap,                \* snapshot ids used so far
          dmtx, fmtx,           \* writer mutex holders (0 = free)
          stack, pos,           \* per thread: frames; position in the script
          tagSig, tagState,     \* tag -> signal; tag -> "none" | "active" | "removed" | "released"
          ndeliv,
          bad

vars == <<disp, dsnap, dcur, dlive, fsnap, fcur, flive, nsnap, dmtx, fmtx, stack, pos, tagSig,
          tagState, ndeliv, bad>>

Ops(m) == {Script[m][i] : i \in 1..Len(Script[m])}
AllTags == UNION {{op[3] : op \in {o \in Ops(m) : o[1] = "reg"}} : m \in Mutators}
MaxSnap == 2 + 3 * Cardinality(AllTags) + 2 * Cardinality(Mutators)

Idle == [kind |-> "idle", pc |-> "done"]
MFrame(op) == [kind |-> "M", pc |-> "m_lock", op |-> op, work |-> EmptyData, changed |-> FALSE,
               det |-> "dfl", old |-> 0, res |-> FALSE]
HFrame(s) == [kind |-> "H", pc |-> IF DispatchOrder = "F_then_D" THEN "h_openF" ELSE "h_openD",
              sig |-> s, f |-> 0, d |-> 0, ran |-> << >>, prevs |-> << >>, i |-> 1]

Top(t) == stack[t][Len(stack[t])]
SetTop(t, fr) == stack' = [stack EXCEPT ![t] = [@ EXCEPT ![Len(@)] = fr]]
Pop(t) == stack' = [stack EXCEPT ![t] = SubSeq(@, 1, Len(@) - 1)]

Init ==
    /\ disp = PrevKind
    /\ dsnap = [i \in 1..MaxSnap |-> EmptyData]
    /\ dcur = 1 /\ dlive = {1}
    /\ fsnap = [i \in 1..MaxSnap |-> NoFallback]
    /\ fcur = 2 /\ flive = {2}
    /\ nsnap = 2
    /\ dmtx = 0 /\ fmtx = 0
    /\ stack = [t \in Threads |-> << Idle >>]
    /\ pos = [m \in Mutators |-> 1]
    /\ tagSig = [g \in AllTags |-> 0]
    /\ tagState = [g \in AllTags |-> "none"]
    /\ ndeliv = 0
    /\ bad = {}

\* Frames holding a snapshot.
Frames == {<<t, k>> \in Threads \X (1..(MaxNested + 1)) : k <= Len(stack[t])}
HoldsD(id) == \E p \in Frames : stack[p[1]][p[2]].kind = "H" /\ stack[p[1]][p[2]].d = id
HoldsF(id) == \E p \in Frames : stack[p[1]][p[2]].kind = "H" /\ stack[p[1]][p[2]].f = id

Remove(seq, x) == SelectSeq(seq, LAMBDA y : y # x)
TagsIn(content) == UNION {{content[s].acts[i] : i \in 1..Len(content[s].acts)} : s \in Sigs}

----------------------------------------------------------------------------
(* Mutators *)

M_Start(m) ==
    /\ Top(m).kind = "idle" /\ Len(stack[m]) = 1 /\ pos[m] <= Len(Script[m])
    /\ stack' = [stack EXCEPT ![m] = << MFrame(Script[m][pos[m]]) >>]
    /\ pos' = [pos EXCEPT ![m] = @ + 1]
    /\ UNCHANGED <<disp, dsnap, dcur, dlive, fsnap, fcur, flive, nsnap, dmtx, fmtx, tagSig,
                   tagState, ndeliv, bad>>

M_Lock(m) ==
    LET fr == Top(m) IN
    /\ fr.kind = "M" /\ fr.pc = "m_lock" /\ dmtx = 0
    /\ dmtx' = m
    /\ SetTop(m, [fr EXCEPT !.pc = "m_clone"])
    /\ UNCHANGED <<disp, dsnap, dcur, dlive, fsnap, fcur, flive, nsnap, fmtx, pos, tagSig,
                   tagState, ndeliv, bad>>

\* Clone the current snapshot and edit the copy (no shared-memory step in between in the code).
M_Clone(m) ==
    LET fr == Top(m)
        op == fr.op
        c == dsnap[dcur] IN
    /\ fr.kind = "M" /\ fr.pc = "m_clone"
    /\ CASE op[1] = "reg" ->
              IF c[op[2]].present
              THEN SetTop(m, [fr EXCEPT !.work = [c EXCEPT ![op[2]].acts = Append(@, op[3])],
                                        !.changed = TRUE, !.res = TRUE, !.pc = "m_publish"])
              ELSE SetTop(m, [fr EXCEPT !.work = c, !.changed = TRUE, !.res = TRUE,
                                        !.pc = IF RegisterOrder = "fallback_then_sigaction"
                                               THEN "m_detect" ELSE "m_sigaction"])
         [] op[1] = "unreg" ->
              LET s == tagSig[op[2]]
                  has == s # 0 /\ \E i \in 1..Len(c[s].acts) : c[s].acts[i] = op[2] IN
              IF has
              THEN SetTop(m, [fr EXCEPT !.work = [c EXCEPT ![s].acts = Remove(@, op[2])],
                                        !.changed = TRUE, !.res = TRUE, !.pc = "m_publish"])
              ELSE SetTop(m, [fr EXCEPT !.pc = "m_return"])
         [] op[1] = "unregsig" ->
              IF c[op[2]].present /\ c[op[2]].acts # << >>
              THEN SetTop(m, [fr EXCEPT !.work = [c EXCEPT ![op[2]].acts = << >>],
                                        !.changed = TRUE, !.res = TRUE, !.pc = "m_publish"])
              ELSE SetTop(m, [fr EXCEPT !.pc = "m_return"])
    /\ UNCHANGED <<disp, dsnap, dcur, dlive, fsnap, fcur, flive, nsnap, dmtx, fmtx, pos, tagSig,
                   tagState, ndeliv, bad>>

M_Detect(m) ==
    LET fr == Top(m) IN
    /\ fr.kind = "M" /\ fr.pc = "m_detect"
    /\ SetTop(m, [fr EXCEPT !.det = disp[fr.op[2]], !.pc = "m_fpublish"])
    /\ UNCHANGED <<disp, dsnap, dcur, dlive, fsnap, fcur, flive, nsnap, dmtx, fmtx, pos, tagSig,
                   tagState, ndeliv, bad>>

M_FPublish(m) ==
    LET fr == Top(m) IN
    /\ fr.kind = "M" /\ fr.pc = "m_fpublish" /\ fmtx = 0
    /\ fmtx' = m
    /\ nsnap' = nsnap + 1
    /\ fsnap' = [fsnap EXCEPT ![nsnap + 1] = [sig |-> fr.op[2], prev |-> fr.det]]
    /\ flive' = flive \cup {nsnap + 1}
    /\ fcur' = nsnap + 1
    /\ SetTop(m, [fr EXCEPT !.old = fcur, !.pc = "m_ffree"])
    /\ UNCHANGED <<disp, dsnap, dcur, dlive, dmtx, pos, tagSig, tagState, ndeliv, bad>>

M_FFree(m) ==
    LET fr == Top(m) IN
    /\ fr.kind = "M" /\ fr.pc = "m_ffree"
    /\ FallbackGrace => ~HoldsF(fr.old)
    /\ flive' = flive \ {fr.old}
    /\ fmtx' = 0
    /\ bad' = bad \cup (IF Len(stack[m]) > 1 THEN {"free_in_handler"} ELSE {})
    /\ SetTop(m, [fr EXCEPT !.pc = IF RegisterOrder = "fallback_then_sigaction"
                                   THEN "m_sigaction" ELSE "m_addslot"])
    /\ UNCHANGED <<disp, dsnap, dcur, dlive, fsnap, fcur, nsnap, dmtx, pos, tagSig, tagState,
                   ndeliv>>

\* sigaction(): atomically installs the library's dispatcher and returns the old disposition,
\* which becomes the slot's `prev`.
M_Sigaction(m) ==
    LET fr == Top(m)
        s == fr.op[2] IN
    /\ fr.kind = "M" /\ fr.pc = "m_sigaction"
    /\ disp' = [disp EXCEPT ![s] = "lib"]
    /\ IF RegisterOrder = "fallback_then_sigaction"
       THEN SetTop(m, [fr EXCEPT !.work = [fr.work EXCEPT ![s] =
                         [present |-> TRUE, prev |-> disp[s], acts |-> << fr.op[3] >>]],
                                 !.pc = "m_publish"])
       ELSE SetTop(m, [fr EXCEPT !.det = disp[s], !.pc = "m_fpublish"])
    /\ UNCHANGED <<dsnap, dcur, dlive, fsnap, fcur, flive, nsnap, dmtx, fmtx, pos, tagSig,
                   tagState, ndeliv, bad>>

\* (variant order only) the slot is added to the copy after the fallback was stored.
M_AddSlot(m) ==
    LET fr == Top(m)
        s == fr.op[2] IN
    /\ fr.kind = "M" /\ fr.pc = "m_addslot"
    /\ SetTop(m, [fr EXCEPT !.work = [fr.work EXCEPT ![s] =
                     [present |-> TRUE, prev |-> fr.det, acts |-> << fr.op[3] >>]],
                            !.pc = "m_publish"])
    /\ UNCHANGED <<disp, dsnap, dcur, dlive, fsnap, fcur, flive, nsnap, dmtx, fmtx, pos, tagSig,
                   tagState, ndeliv, bad>>

M_Publish(m) ==
    LET fr == Top(m)
        op == fr.op IN
    /\ fr.kind = "M" /\ fr.pc = "m_publish"
    /\ nsnap' = nsnap + 1
    /\ dsnap' = [dsnap EXCEPT ![nsnap + 1] = fr.work]
    /\ dlive' = dlive \cup {nsnap + 1}
    /\ dcur' = nsnap + 1
    /\ IF op[1] = "reg"
       THEN /\ tagSig' = [tagSig EXCEPT ![op[3]] = op[2]]
            /\ tagState' = [tagState EXCEPT ![op[3]] = "active"]
       ELSE UNCHANGED <<tagSig, tagState>>
    /\ SetTop(m, [fr EXCEPT !.old = dcur, !.pc = "m_free"])
    /\ UNCHANGED <<disp, fsnap, fcur, flive, dmtx, fmtx, pos, ndeliv, bad>>

\* The write barrier has passed (nobody holds the replaced snapshot): it is dropped, and with it
\* every action that no live snapshot refers to any more.
M_Free(m) ==
    LET fr == Top(m)
        gone == TagsIn(dsnap[fr.old]) \ UNION {TagsIn(dsnap[i]) : i \in dlive \ {fr.old}} IN
    /\ fr.kind = "M" /\ fr.pc = "m_free"
    /\ ~HoldsD(fr.old)
    /\ dlive' = dlive \ {fr.old}
    /\ tagState' = [g \in AllTags |-> IF g \in gone THEN "released" ELSE tagState[g]]
    /\ bad' = bad \cup (IF Len(stack[m]) > 1 THEN {"free_in_handler"} ELSE {})
    /\ SetTop(m, [fr EXCEPT !.pc = "m_return"])
    /\ UNCHANGED <<disp, dsnap, dcur, fsnap, fcur, flive, nsnap, dmtx, fmtx, pos, tagSig, ndeliv>>

M_Return(m) ==
    LET fr == Top(m) IN
    /\ fr.kind = "M" /\ fr.pc = "m_return"
    /\ dmtx' = 0
    /\ stack' = [stack EXCEPT ![m] = << Idle >>]
    /\ UNCHANGED <<disp, dsnap, dcur, dlive, fsnap, fcur, flive, nsnap, fmtx, pos, tagSig,
                   tagState, ndeliv, bad>>

----------------------------------------------------------------------------
(* Kernel and dispatcher *)

\* A signal arrives on thread t (at any boundary, also on a thread that is mid-mutation).
Deliver(t, s) ==
    /\ ndeliv < MaxDeliveries /\ Len(stack[t]) <= MaxNested
    /\ ndeliv' = ndeliv + 1
    /\ IF disp[s] = "lib"
       THEN stack' = [stack EXCEPT ![t] = Append(@, HFrame(s))]
       ELSE \* the kernel runs the foreign handler (or the default/ignore action) itself
            UNCHANGED stack
    /\ UNCHANGED <<disp, dsnap, dcur, dlive, fsnap, fcur, flive, nsnap, dmtx, fmtx, pos, tagSig,
                   tagState, bad>>

H_OpenF(t) ==
    LET fr == Top(t) IN
    /\ fr.kind = "H" /\ fr.pc = "h_openF"
    /\ SetTop(t, [fr EXCEPT !.f = fcur,
                            !.pc = IF DispatchOrder = "F_then_D" THEN "h_openD" ELSE "h_lookup"])
    /\ bad' = bad \cup (IF fcur \notin flive THEN {"open_freed"} ELSE {})
    /\ UNCHANGED <<disp, dsnap, dcur, dlive, fsnap, fcur, flive, nsnap, dmtx, fmtx, pos, tagSig,
                   tagState, ndeliv>>

H_OpenD(t) ==
    LET fr == Top(t) IN
    /\ fr.kind = "H" /\ fr.pc = "h_openD"
    /\ SetTop(t, [fr EXCEPT !.d = dcur,
                            !.pc = IF DispatchOrder = "F_then_D" THEN "h_lookup" ELSE "h_openF"])
    /\ UNCHANGED <<disp, dsnap, dcur, dlive, fsnap, fcur, flive, nsnap, dmtx, fmtx, pos, tagSig,
                   tagState, ndeliv, bad>>

H_Lookup(t) ==
    LET fr == Top(t)
        slot == dsnap[fr.d][fr.sig]
        fb == fsnap[fr.f] IN
    /\ fr.kind = "H" /\ fr.pc = "h_lookup"
    /\ bad' = bad \cup (IF fr.d \notin dlive \/ fr.f \notin flive THEN {"use_after_free"} ELSE {})
    /\ IF slot.present
       THEN SetTop(t, [fr EXCEPT !.prevs = IF slot.prev \in {"plain", "info"}
                                            THEN << <<slot.prev, 0>> >> ELSE << >>,
                                 !.pc = "h_act"])
       ELSE SetTop(t, [fr EXCEPT !.prevs = IF fb.sig = fr.sig /\ fb.prev \in {"plain", "info"}
                                            THEN << <<fb.prev, 0>> >> ELSE << >>,
                                 !.pc = "h_close"])
    /\ UNCHANGED <<disp, dsnap, dcur, dlive, fsnap, fcur, flive, nsnap, dmtx, fmtx, pos, tagSig,
                   tagState, ndeliv>>

H_Act(t) ==
    LET fr == Top(t)
        acts == dsnap[fr.d][fr.sig].acts IN
    /\ fr.kind = "H" /\ fr.pc = "h_act"
    /\ IF fr.i <= Len(acts)
       THEN /\ SetTop(t, [fr EXCEPT !.ran = Append(@, acts[fr.i]), !.i = @ + 1])
            /\ bad' = bad \cup (IF tagState[acts[fr.i]] = "released" \/ fr.d \notin dlive
                                THEN {"action_used_after_release"} ELSE {})
                           \cup (IF tagSig[acts[fr.i]] # fr.sig THEN {"wrong_signal"} ELSE {})
       ELSE /\ SetTop(t, [fr EXCEPT !.pc = "h_close"])
            /\ UNCHANGED bad
    /\ UNCHANGED <<disp, dsnap, dcur, dlive, fsnap, fcur, flive, nsnap, dmtx, fmtx, pos, tagSig,
                   tagState, ndeliv>>

H_Close(t) ==
    LET fr == Top(t) IN
    /\ fr.kind = "H" /\ fr.pc = "h_close"
    /\ bad' = bad \cup
         (IF PrevKind[fr.sig] \in {"plain", "info"}
          THEN (IF fr.prevs = << <<PrevKind[fr.sig], 0>> >> THEN {} ELSE {"prev_not_chained_once"})
          ELSE (IF fr.prevs = << >> THEN {} ELSE {"prev_unexpected"}))
    /\ Pop(t)
    /\ UNCHANGED <<disp, dsnap, dcur, dlive, fsnap, fcur, flive, nsnap, dmtx, fmtx, pos, tagSig,
                   tagState, ndeliv>>

MStep(m) == M_Start(m) \/ M_Lock(m) \/ M_Clone(m) \/ M_Detect(m) \/ M_FPublish(m) \/ M_FFree(m)
            \/ M_Sigaction(m) \/ M_AddSlot(m) \/ M_Publish(m) \/ M_Free(m) \/ M_Return(m)
HStep(t) == H_OpenF(t) \/ H_OpenD(t) \/ H_Lookup(t) \/ H_Act(t) \/ H_Close(t)
Step(t) == (t \in Mutators /\ MStep(t)) \/ HStep(t)

AllDone == \A t \in Threads : Top(t).kind = "idle" /\ (t \in Mutators => pos[t] > Len(Script[t]))

Next == \/ \E m \in Mutators : MStep(m)
        \/ \E t \in Threads : HStep(t) \/ \E s \in Sigs : Deliver(t, s)
        \/ (AllDone /\ UNCHANGED vars)

Spec == Init /\ [][Next]_vars
FairSpec == Spec /\ \A t \in Threads : WF_vars(Step(t))

----------------------------------------------------------------------------
(* Properties *)

\* C04: a pre-existing real handler is chained exactly once per library-dispatched delivery,
\* with the convention it was installed with; default/ignore are not called.
PrevChained == bad \cap {"prev_not_chained_once", "prev_unexpected"} = {}

\* C01: no dispatcher touches a released snapshot or action; frees happen outside handlers.
NoUseAfterFree == bad \cap {"use_after_free", "open_freed", "action_used_after_release",
                            "free_in_handler"} = {}

\* C01: once a removal has returned, no delivery holds a snapshot that still lists the action.
RemovedTags == {g \in AllTags : tagState[g] = "released"}
Quiescent == \A p \in Frames :
    LET fr == stack[p[1]][p[2]] IN
    (fr.kind = "H" /\ fr.d # 0) => TagsIn(dsnap[fr.d]) \cap RemovedTags = {}

\* C02: each delivery ran exactly the action list of the snapshot it held (by construction of
\* H_Act) and only actions of its own signal.
OwnSignalOnly == "wrong_signal" \notin bad

\* C03: a dispatcher frame never waits for anybody.
HandlerNeverBlocked == \A t \in Threads : Top(t).kind = "H" => ENABLED HStep(t)

\* C18: lock order - the fallback mutex is only ever taken while holding the data mutex.
LockOrder == fmtx # 0 => dmtx = fmtx

\* C18: every mutator finishes (deliveries are finite).
Termination == <>[]AllDone
=============================================================================
