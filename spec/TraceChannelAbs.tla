--------------------------- MODULE TraceChannelAbs ---------------------------
(* Real executions of Channel<T> against ChannelAbs; internal steps are chosen by TLC. *)
EXTENDS ChannelAbs, TLC, Json, IOUtils

Rec == ndJsonDeserialize(IOEnv.TRACE)

VARIABLE l

R == Rec[l]
F == <<R.t, R.d>>
IsEvent(e) == l <= Len(Rec) /\ R.e = e /\ l' = l + 1

TInit == AbsInit /\ l = 1 /\ TLCSet(42, 1)

TReset == IsEvent("reset") /\ (l = 1 \/ Quiescent) /\ AbsReset
TCallSend == IsEvent("call_send") /\ CallSend(F, R.v)
TCellWrite == IsEvent("cell_write") /\ CellWrite(F, R.i)
TRetSend == IsEvent("ret_send") /\ RetSend(F, R.solo)
TCallRecv == IsEvent("call_recv") /\ CallRecv(F)
TCellTake == IsEvent("cell_take") /\ CellTake(F, R.i)
TRetRecv == IsEvent("ret_recv") /\ RetRecv(F, R.v, R.solo)
TDrop == IsEvent("drop") /\ Drop(F, R.v)
TChanDrop == IsEvent("chan_drop") /\ ChanDrop
TSkip == /\ l <= Len(Rec) /\ R.e \in {"deliver", "return", "done"} /\ l' = l + 1
         /\ UNCHANGED absvars
TInternal == l <= Len(Rec) /\ (\E f \in DOMAIN ops : Internal(f)) /\ UNCHANGED l

TNext == TReset \/ TCallSend \/ TCellWrite \/ TRetSend \/ TCallRecv \/ TCellTake \/ TRetRecv
         \/ TDrop \/ TChanDrop \/ TSkip \/ TInternal

TraceSpec == TInit /\ [][TNext]_<<absvars, l>>

\* High-water mark of the consumed prefix (internal steps make the diameter useless).
Mark == IF l > TLCGet(42) THEN TLCSet(42, l) ELSE TRUE

TraceAccepted ==
    LET m == TLCGet(42) IN
    IF m = Len(Rec) + 1 THEN TRUE
    ELSE Print(<<"TRACE_REJECTED", m, Rec[m]>>, FALSE)
=============================================================================
