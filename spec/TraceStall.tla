------------------------------ MODULE TraceStall ------------------------------
(* C01 / C02 in real time: a delivery is stalled inside an earlier action (the  *)
(* thread is "stopped inside the handler") while another thread removes a later *)
(* action of the same signal.  HalfLockAbs / TraceRegistryAbs say what must     *)
(* hold: once the removal has returned, the removed action never starts again   *)
(* - so either the removal waits for the stalled delivery (half_lock.rs:194-215 *)
(* write_barrier), or the delivery must not run the action afterwards.  A       *)
(* barrier that gives up after a while is invisible to the scheduler-driven     *)
(* exploration (a spinning thread is not run alone there); here the writer      *)
(* spins at native speed for hold_ms.                                           *)
EXTENDS Integers, Sequences, TLC, Json, IOUtils

Rec == ndJsonDeserialize(IOEnv.TRACE)
VARIABLES l, viol
tvars == <<l, viol>>
R == Rec[l]
Flg(c, s) == IF c THEN {s} ELSE {}

TInit == l = 1 /\ viol = {}

TProbe ==
    /\ l <= Len(Rec) /\ R.e = "stall" /\ l' = l + 1
    /\ IF R.status # "exited:0"
       THEN viol' = viol \cup {"process_died_or_hung"}
       ELSE viol' = viol
              \cup Flg(R.r.late = 1, "removed_action_started_after_removal_returned")
              \cup Flg(R.r.a2 > 1, "action_ran_twice_in_one_delivery")

TraceSpec == TInit /\ [][TProbe]_tvars
TraceAccepted ==
    LET d == TLCGet("stats").diameter IN
    IF d - 1 = Len(Rec) THEN TRUE ELSE Print(<<"TRACE_REJECTED", d, Rec[d]>>, FALSE)
V_C01 == viol = {}
V_C02 == viol = {}
V_C18 == "process_died_or_hung" \notin viol
=============================================================================
