---------------------------- MODULE FallbackProof ----------------------------
(***************************************************************************)
(* C04's core - a handler that was installed before the library took the    *)
(* signal over is chained by EVERY delivery that reaches the library's      *)
(* dispatcher, from the very instant the dispatcher is the disposition -    *)
(* machine-checked by TLAPS for ANY number of signals, first registrations  *)
(* and concurrent deliveries.                                               *)
(*                                                                         *)
(* First registration of a signal s (lib.rs:598-650, under the writers'     *)
(* mutex, one at a time; RegisterOrder = fallback_then_sigaction):          *)
(*   W_Fallback  race_fallback := the previous handler of s                 *)
(*   W_Sigaction the kernel's disposition of s := the library's dispatcher  *)
(*   W_Publish   the slot of s (with that previous handler) appears in the  *)
(*               registry's snapshot; slots are never removed               *)
(* Dispatcher (lib.rs:300-340; DispatchOrder = F_then_D):                   *)
(*   D_Begin   the kernel runs the dispatcher for s (only if it is the      *)
(*             disposition; before that the old handler runs directly)      *)
(*   D_Fallback  read race_fallback          D_Data  read the snapshot      *)
(*   D_Chain   call the slot's previous handler if the snapshot has a slot  *)
(*             for s, otherwise the fallback's if it is the one of s        *)
(* Theorem: no delivery ever finishes D_Chain without having had a previous *)
(* handler of its own signal in its hands.                                  *)
(***************************************************************************)
EXTENDS TLAPS

CONSTANTS Sigs, Deliveries, None
ASSUME NoneNotSig == None \notin Sigs

VARIABLES disp, slot, fallback, wpc, wsig, dpc, dsig, dfb, dsnap, missed

vars == <<disp, slot, fallback, wpc, wsig, dpc, dsig, dfb, dsnap, missed>>

Init ==
    /\ disp = [s \in Sigs |-> "old"] /\ slot = {} /\ fallback = None
    /\ wpc = "idle" /\ wsig \in Sigs
    /\ dpc = [d \in Deliveries |-> "idle"] /\ dsig \in [Deliveries -> Sigs]
    /\ dfb = [d \in Deliveries |-> None] /\ dsnap = [d \in Deliveries |-> {}]
    /\ missed = FALSE

W_Fallback(s) ==
    /\ wpc = "idle" /\ s \notin slot /\ disp[s] = "old"
    /\ fallback' = s /\ wsig' = s /\ wpc' = "sigaction"
    /\ UNCHANGED <<disp, slot, dpc, dsig, dfb, dsnap, missed>>

W_Sigaction ==
    /\ wpc = "sigaction"
    /\ disp' = [disp EXCEPT ![wsig] = "lib"]
    /\ wpc' = "publish"
    /\ UNCHANGED <<slot, fallback, wsig, dpc, dsig, dfb, dsnap, missed>>

W_Publish ==
    /\ wpc = "publish"
    /\ slot' = slot \cup {wsig}
    /\ wpc' = "idle"
    /\ UNCHANGED <<disp, fallback, wsig, dpc, dsig, dfb, dsnap, missed>>

D_Begin(d, s) ==
    /\ dpc[d] = "idle" /\ disp[s] = "lib"
    /\ dsig' = [dsig EXCEPT ![d] = s]
    /\ dpc' = [dpc EXCEPT ![d] = "fallback"]
    /\ UNCHANGED <<disp, slot, fallback, wpc, wsig, dfb, dsnap, missed>>

D_Fallback(d) ==
    /\ dpc[d] = "fallback"
    /\ dfb' = [dfb EXCEPT ![d] = fallback]
    /\ dpc' = [dpc EXCEPT ![d] = "data"]
    /\ UNCHANGED <<disp, slot, fallback, wpc, wsig, dsig, dsnap, missed>>

D_Data(d) ==
    /\ dpc[d] = "data"
    /\ dsnap' = [dsnap EXCEPT ![d] = slot]
    /\ dpc' = [dpc EXCEPT ![d] = "chain"]
    /\ UNCHANGED <<disp, slot, fallback, wpc, wsig, dsig, dfb, missed>>

D_Chain(d) ==
    /\ dpc[d] = "chain"
    /\ missed' = (missed \/ ~(dsig[d] \in dsnap[d] \/ dfb[d] = dsig[d]))
    /\ dpc' = [dpc EXCEPT ![d] = "idle"]
    /\ UNCHANGED <<disp, slot, fallback, wpc, wsig, dsig, dfb, dsnap>>

Next ==
    \/ \E s \in Sigs : W_Fallback(s)
    \/ W_Sigaction \/ W_Publish
    \/ \E d \in Deliveries : (\E s \in Sigs : D_Begin(d, s)) \/ D_Fallback(d) \/ D_Data(d) \/ D_Chain(d)
Spec == Init /\ [][Next]_vars

PrevAlwaysChained == ~missed

TypeOK ==
    /\ disp \in [Sigs -> {"old", "lib"}] /\ slot \in SUBSET Sigs
    /\ fallback \in Sigs \cup {None}
    /\ wpc \in {"idle", "sigaction", "publish"} /\ wsig \in Sigs
    /\ dpc \in [Deliveries -> {"idle", "fallback", "data", "chain"}]
    /\ dsig \in [Deliveries -> Sigs]
    /\ dfb \in [Deliveries -> Sigs \cup {None}]
    /\ dsnap \in [Deliveries -> SUBSET Sigs]
    /\ missed \in BOOLEAN

\* the dispatcher is the disposition of s only if the slot of s is out, or its first registration
\* is between sigaction and publication with the fallback still naming s
TakenOver ==
    \A s \in Sigs : disp[s] = "lib" =>
        \/ s \in slot
        \/ wpc = "publish" /\ wsig = s /\ fallback = s
WriterInv == wpc \in {"sigaction", "publish"} => fallback = wsig /\ wsig \notin slot

\* a delivery in flight either will find its slot, or has (will have) the right fallback in hand
InFlight ==
    \A d \in Deliveries :
        /\ dpc[d] # "idle" => disp[dsig[d]] = "lib"
        /\ dpc[d] = "data" => (dsig[d] \in slot \/ dfb[d] = dsig[d])
        /\ dpc[d] = "chain" => (dsig[d] \in dsnap[d] \/ dfb[d] = dsig[d])

IndInv == TypeOK /\ TakenOver /\ WriterInv /\ InFlight /\ ~missed

THEOREM InitInv == Init => IndInv
  BY NoneNotSig DEF Init, IndInv, TypeOK, TakenOver, WriterInv, InFlight

THEOREM Step == IndInv /\ [Next]_vars => IndInv'
<1> SUFFICES ASSUME IndInv, [Next]_vars PROVE IndInv'
  OBVIOUS
<1> USE NoneNotSig DEF IndInv, TypeOK, TakenOver, WriterInv, InFlight
<1>1. ASSUME NEW s \in Sigs, W_Fallback(s) PROVE IndInv'
  BY <1>1 DEF W_Fallback
<1>2. CASE W_Sigaction
  BY <1>2 DEF W_Sigaction
<1>3. CASE W_Publish
  BY <1>3 DEF W_Publish
<1>4. ASSUME NEW d \in Deliveries, NEW s \in Sigs, D_Begin(d, s) PROVE IndInv'
  BY <1>4 DEF D_Begin
<1>5. ASSUME NEW d \in Deliveries, D_Fallback(d) PROVE IndInv'
  BY <1>5 DEF D_Fallback
<1>6. ASSUME NEW d \in Deliveries, D_Data(d) PROVE IndInv'
  BY <1>6 DEF D_Data
<1>7. ASSUME NEW d \in Deliveries, D_Chain(d) PROVE IndInv'
  BY <1>7 DEF D_Chain
<1>8. CASE UNCHANGED vars
  BY <1>8 DEF vars
<1> QED
  BY <1>1, <1>2, <1>3, <1>4, <1>5, <1>6, <1>7, <1>8 DEF Next

THEOREM Safety == Spec => []PrevAlwaysChained
<1>1. Spec => []IndInv
  BY InitInv, Step, PTL DEF Spec
<1>2. IndInv => PrevAlwaysChained
  BY DEF IndInv, PrevAlwaysChained
<1> QED
  BY <1>1, <1>2, PTL
=============================================================================
