------------------------------ MODULE RejectOps ------------------------------
(***************************************************************************)
(* C14: what every registration entry point must do with every signal      *)
(* number.  Expected(entry, n) is the documented outcome class:            *)
(*   "panic"  a catchable panic, nothing changed                           *)
(*   "err"    Err(EINVAL) returned, nothing changed                        *)
(*   "ok"     registered: only n's disposition may have changed            *)
(* Anchors: registry lib.rs:528-538 (assert before anything is touched),   *)
(* :609-620 (errors propagate before the snapshot is published),           *)
(* backend.rs:125-136 (iterator range asserts), flag.rs:222 (name check).  *)
(***************************************************************************)
EXTENDS Kernel, Sequences

CheckedEntries == {"registry_register", "registry_register_sigaction", "low_level_register",
                   "flag_register", "flag_register_usize", "flag_conditional_shutdown",
                   "flag_conditional_default", "pipe_register", "pipe_register_raw",
                   "pipe_register_raw_pipe", "pipe_register_file",
                   "signals_new", "signals_new_after_valid", "add_signal"}
UncheckedEntries == {"registry_register_signal_unchecked", "registry_register_unchecked"}
IteratorEntries == {"signals_new", "signals_new_after_valid", "add_signal"}

\* Signals the library knows by name (needed by register_conditional_default only).
NamedSigs == (1..31) \ {16, 30}

Expected(entry, n) ==
    IF entry \in UncheckedEntries
    THEN IF n \in Catchable THEN "ok" ELSE "err"
    ELSE IF entry \in IteratorEntries /\ (n < 0 \/ n >= 128) THEN "panic"
    ELSE IF entry = "flag_conditional_default" /\ n \notin NamedSigs THEN "err"
    ELSE IF n \in Forbidden THEN "panic"
    ELSE IF n \in Catchable THEN "ok"
    ELSE "err"

\* Entries whose probe captures a counted object in the action itself.
ClosureEntries == {"registry_register", "registry_register_sigaction", "low_level_register"}
                  \cup UncheckedEntries
=============================================================================
