-------------------------------- MODULE Flag --------------------------------
(* The semantics of FlagOps.tla as a state machine; TLC explores every history up to MaxLen and
   checks the closed-form readings of C15 against it. *)
EXTENDS FlagOps

CONSTANT MaxLen
VARIABLES order, hist, term, usz, dead, survived
fvars == <<order, hist, term, usz, dead, survived>>

FInit == /\ order \in Orders /\ hist = << >> /\ term = FALSE /\ usz = 0 /\ dead = FALSE
         /\ survived = 0

Do(o) ==
    /\ ~dead /\ Len(hist) < MaxLen
    /\ hist' = Append(hist, o)
    /\ CASE o = "a" -> /\ term' = TRUE /\ UNCHANGED <<usz, dead, survived>>
         [] o = "d" -> /\ term' = FALSE /\ UNCHANGED <<usz, dead, survived>>
         [] o = "u" -> /\ usz' = 3 /\ UNCHANGED <<term, dead, survived>>
         [] OTHER -> LET s == RunActions(Actions(order), [term |-> term, usz |-> usz, dead |-> FALSE])
                     IN /\ term' = s.term /\ usz' = s.usz /\ dead' = s.dead
                        /\ survived' = IF s.dead THEN survived ELSE survived + 1
    /\ UNCHANGED order

FNext == (\E o \in {"a", "d", "u", "r"} : Do(o)) \/ UNCHANGED fvars
FSpec == FInit /\ [][FNext]_fvars

\* C15: after a delivery that returned, the flags hold their registered values.
FlagsSetAfterDelivery ==
    (hist # << >> /\ hist[Len(hist)] = "r" /\ ~dead) =>
        /\ usz = 7
        /\ (order \in {"shutdown_first", "flag_first", "flag_only"} => term)

\* C15: the process dies in a delivery iff the condition was true when the shutdown action ran:
\* "shutdown first, arming flag second" survives exactly the first delivery of an unarmed run.
ShutdownIffArmed ==
    (order = "shutdown_first" /\ "a" \notin {hist[i] : i \in 1..Len(hist)}
                              /\ "d" \notin {hist[i] : i \in 1..Len(hist)}) =>
        (dead <=> Len(SelectSeq(hist, LAMBDA x : x = "r")) >= 2)
FlagFirstDiesAtOnce ==
    order = "flag_first" => (dead <=> "r" \in {hist[i] : i \in 1..Len(hist)})
FlagOnlyNeverDies == order = "flag_only" => ~dead
ModelAgrees == Run(order, hist).dead = dead /\ Len(Run(order, hist).steps) = survived
=============================================================================
