-------------------------------- MODULE Flag --------------------------------
(* The semantics of FlagOps.tla as a state machine; TLC explores every history up to MaxLen and
   checks the closed-form readings of C15 against it. *)
EXTENDS FlagOps

CONSTANT MaxLen
VARIABLES order, kind, hist, term, usz, dead, how, survived
fvars == <<order, kind, hist, term, usz, dead, how, survived>>

FInit == /\ order \in Orders /\ kind \in Kinds /\ hist = << >> /\ term = FALSE /\ usz = 0
         /\ dead = FALSE /\ how = "none" /\ survived = 0

Do(o) ==
    /\ ~dead /\ Len(hist) < MaxLen
    /\ hist' = Append(hist, o)
    /\ CASE o = "a" -> /\ term' = TRUE /\ UNCHANGED <<usz, dead, how, survived>>
         [] o = "d" -> /\ term' = FALSE /\ UNCHANGED <<usz, dead, how, survived>>
         [] o = "u" -> /\ usz' = 3 /\ UNCHANGED <<term, dead, how, survived>>
         [] OTHER -> LET s == RunActions(IF o = "w" THEN WActions(order) ELSE Actions(order),
                                         [St0 EXCEPT !.term = term, !.usz = usz],
                                         IF o = "w" THEN "ign" ELSE kind)
                     IN /\ term' = s.term /\ usz' = s.usz /\ dead' = s.dead /\ how' = s.how
                        /\ survived' = IF s.dead THEN survived ELSE survived + 1
    /\ UNCHANGED <<order, kind>>

FNext == (\E o \in {"a", "d", "u", "r", "w"} : Do(o)) \/ UNCHANGED fvars
FSpec == FInit /\ [][FNext]_fvars

\* C15: after a delivery that returned, the flags hold their registered values.
FlagsSetAfterDelivery ==
    (hist # << >> /\ hist[Len(hist)] = "r" /\ ~dead) =>
        /\ usz = 7
        /\ (order \in {"shutdown_first", "flag_first", "flag_only", "default_first"} => term)

\* C15: the process dies in a delivery iff the condition was true when the shutdown action ran:
\* "shutdown first, arming flag second" survives exactly the first delivery of an unarmed run.
ShutdownIffArmed ==
    (order = "shutdown_first" /\ "a" \notin {hist[i] : i \in 1..Len(hist)}
                              /\ "d" \notin {hist[i] : i \in 1..Len(hist)}) =>
        (dead <=> Len(SelectSeq(hist, LAMBDA x : x = "r")) >= 2)
FlagFirstDiesAtOnce ==
    order = "flag_first" => (dead <=> "r" \in {hist[i] : i \in 1..Len(hist)})
FlagOnlyNeverDies == order = "flag_only" => ~dead
\* The library only ever *sets* the flag (flag action); nothing else writes it: the application's
\* armed flag stays armed across deliveries that the process survives.
ArmedStaysArmed ==
    \A i \in 1..Len(hist) :
        (hist[i] = "a" /\ \A j \in (i+1)..Len(hist) : hist[j] # "d") => (term \/ dead)
\* A conditional default is a conditional shutdown by the signal's own default action.
DefaultIffArmed ==
    order = "default_only" =>
        (dead <=> (kind = "term" /\ \E i \in 1..Len(hist) : hist[i] = "r" /\
                      \E j \in 1..(i-1) : hist[j] = "a" /\ \A k \in (j+1)..(i-1) : hist[k] # "d"))
DiesTheRightWay ==
    dead => how = (IF order \in {"default_first", "default_only"} THEN "signal" ELSE "exit")
ModelAgrees == /\ Run(order, hist, kind).dead = dead /\ Run(order, hist, kind).how = how
               /\ Len(Run(order, hist, kind).steps) = survived
=============================================================================
