----------------------------- MODULE TraceSignals -----------------------------
(* C12: forked probes of add_signal / drop histories against SignalsOps. *)
EXTENDS SignalsOps, TLC, Json, IOUtils

Rec == ndJsonDeserialize(IOEnv.TRACE)
VARIABLES l, viol
tvars == <<l, viol>>
R == Rec[l]
Flg(c, s) == IF c THEN {s} ELSE {}

TInit == l = 1 /\ viol = {}

TProbe ==
    /\ l <= Len(Rec) /\ R.e = "signals" /\ l' = l + 1
    /\ IF R.status # "exited:0"
       THEN viol' = viol \cup {"process_aborted"}
       ELSE LET want == Expect(R.ops, {10}, TRUE) IN
            viol' = viol
              \cup Flg(Len(R.r.steps) # Len(want), "history_did_not_complete")
              \cup Flg(Len(R.r.steps) = Len(want) /\ R.r.steps # want,
                       "observed_behaviour_differs_from_model")
              \cup Flg(R.r.end # "ok", "drop_of_instance_panicked")
              \cup Flg(R.r.leaked # << >>, "registration_leaked_after_drop")
              \cup Flg(R.r.fds_left # 0, "descriptor_leaked_after_drop")
              \cup Flg(R.r.wit_unreg # 1, "foreign_registration_removed")

\* the last two owners (instance and a handle) dropped at the same time on two threads, many times
TDropStress ==
    /\ l <= Len(Rec) /\ R.e = "signals_dropstress" /\ l' = l + 1
    /\ IF R.status # "exited:0"
       THEN viol' = viol \cup {"process_aborted"}
       ELSE viol' = viol
              \cup Flg(R.r.leaked_rounds > 0, "registration_leaked_after_drop")
              \cup Flg(R.r.fds_left # 0, "descriptor_leaked_after_drop")

TraceSpec == TInit /\ [][TProbe \/ TDropStress]_tvars
TraceAccepted ==
    LET d == TLCGet("stats").diameter IN
    IF d - 1 = Len(Rec) THEN TRUE ELSE Print(<<"TRACE_REJECTED", d, Rec[d]>>, FALSE)
V_C12 == viol = {}
=============================================================================
