------------------------------ MODULE WakeProof ------------------------------
(***************************************************************************)
(* C09's core - "never lose a wake-up" - machine-checked by TLAPS for ANY   *)
(* number of delivering threads, deliveries and watched signals.            *)
(*                                                                         *)
(* The self-pipe protocol of the iterators with the two orders the code     *)
(* has (extracted as ActionOrder = store_then_wake, ConsumerOrder =         *)
(* drain_then_scan; Iterator.tla is the detailed model, with nesting, close *)
(* and the poll interface, checked by TLC for small numbers):               *)
(*   action (backend.rs:139-144)  H_Store: slot[s] := TRUE                  *)
(*                                H_Wake:  one byte into the pipe           *)
(*   consumer (mod.rs:205-217, backend.rs:303-324, :394-407)                *)
(*      C_Read   blocking read of one byte (waits while the pipe is empty)  *)
(*      C_Flush  drain the pipe                                             *)
(*      C_Scan   slots in number order, test-and-clear each                 *)
(* Signals are 0..N-1 (N arbitrary).  Theorem: whenever the consumer sits   *)
(* in its blocking read and a slot is set, a byte is in the pipe or some    *)
(* action is about to write one - so it will wake up and report the signal. *)
(***************************************************************************)
EXTENDS Naturals, TLAPS

CONSTANTS N, Handlers
ASSUME NNat == N \in Nat

VARIABLES slot, bytes, hpc, cpc, pos

vars == <<slot, bytes, hpc, cpc, pos>>
Sigs == 0..(N - 1)

Init ==
    /\ slot = [s \in Sigs |-> FALSE] /\ bytes = 0
    /\ hpc = [h \in Handlers |-> "idle"]
    /\ cpc = "read" /\ pos = 0

H_Store(h, s) ==
    /\ hpc[h] = "idle"
    /\ slot' = [slot EXCEPT ![s] = TRUE]
    /\ hpc' = [hpc EXCEPT ![h] = "wake"]
    /\ UNCHANGED <<bytes, cpc, pos>>

H_Wake(h) ==
    /\ hpc[h] = "wake"
    /\ bytes' = bytes + 1
    /\ hpc' = [hpc EXCEPT ![h] = "idle"]
    /\ UNCHANGED <<slot, cpc, pos>>

C_Read ==
    /\ cpc = "read" /\ bytes > 0
    /\ bytes' = bytes - 1
    /\ cpc' = "flush"
    /\ UNCHANGED <<slot, hpc, pos>>

C_Flush ==
    /\ cpc = "flush"
    /\ bytes' = 0
    /\ cpc' = "scan" /\ pos' = 0
    /\ UNCHANGED <<slot, hpc>>

C_Scan ==
    /\ cpc = "scan"
    /\ IF pos < N
       THEN /\ slot' = [slot EXCEPT ![pos] = FALSE]      \* reported if it was set
            /\ pos' = pos + 1
            /\ UNCHANGED cpc
       ELSE /\ cpc' = "read"
            /\ UNCHANGED <<slot, pos>>
    /\ UNCHANGED <<bytes, hpc>>

Next ==
    \/ \E h \in Handlers : (\E s \in Sigs : H_Store(h, s)) \/ H_Wake(h)
    \/ C_Read \/ C_Flush \/ C_Scan
Spec == Init /\ [][Next]_vars

WakeComing == bytes > 0 \/ \E h \in Handlers : hpc[h] = "wake"

NoLostWakeup == \A s \in Sigs : (cpc = "read" /\ slot[s]) => WakeComing

TypeOK ==
    /\ slot \in [Sigs -> BOOLEAN] /\ bytes \in Nat
    /\ hpc \in [Handlers -> {"idle", "wake"}]
    /\ cpc \in {"read", "flush", "scan"} /\ pos \in Nat

\* a set slot is either still ahead of the running scan, or about to be seen by the scan the
\* pending drain leads to, or its wake-up is in the pipe or about to be written
Covered ==
    \A s \in Sigs : slot[s] =>
        \/ WakeComing
        \/ cpc = "flush"
        \/ cpc = "scan" /\ pos <= s

IndInv == TypeOK /\ Covered

THEOREM InitInv == Init => IndInv
  BY NNat DEF Init, IndInv, TypeOK, Covered, WakeComing, Sigs

THEOREM InvSafe == IndInv => NoLostWakeup
  BY NNat DEF IndInv, TypeOK, Covered, NoLostWakeup, WakeComing, Sigs

THEOREM Step == IndInv /\ [Next]_vars => IndInv'
<1> SUFFICES ASSUME IndInv, [Next]_vars PROVE IndInv'
  OBVIOUS
<1> USE NNat DEF IndInv, TypeOK, Covered, WakeComing, Sigs
<1>1. ASSUME NEW h \in Handlers, NEW s \in Sigs, H_Store(h, s) PROVE IndInv'
  BY <1>1 DEF H_Store
<1>2. ASSUME NEW h \in Handlers, H_Wake(h) PROVE IndInv'
  BY <1>2 DEF H_Wake
<1>3. CASE C_Read
  BY <1>3 DEF C_Read
<1>4. CASE C_Flush
  BY <1>4 DEF C_Flush
<1>5. CASE C_Scan
  BY <1>5 DEF C_Scan
<1>6. CASE UNCHANGED vars
  BY <1>6 DEF vars
<1> QED
  BY <1>1, <1>2, <1>3, <1>4, <1>5, <1>6 DEF Next

THEOREM Safety == Spec => []NoLostWakeup
<1>1. Spec => []IndInv
  BY InitInv, Step, PTL DEF Spec
<1> QED
  BY <1>1, InvSafe, PTL
=============================================================================
