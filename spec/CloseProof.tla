------------------------------ MODULE CloseProof ------------------------------
(***************************************************************************)
(* C11's core - "close() unblocks every consumer, and no wake-up is lost    *)
(* meanwhile" - machine-checked by TLAPS for ANY number of delivering       *)
(* threads, signals and threads calling close().                            *)
(*                                                                         *)
(* WakeProof.tla's protocol plus close (backend.rs:219-222: set the flag,   *)
(* THEN wake the pipe - extracted as CloseOrder = flag_then_wake) and the   *)
(* consumer's check of the flag before it blocks (backend.rs:353):          *)
(*   Cl_Flag  closed := TRUE        Cl_Wake  one byte into the pipe         *)
(*   C_Check  closed ? end : go on to the blocking read                     *)
(* Theorems: NoLostWakeup as before, and CloseUnblocks - once some close()  *)
(* has completed, a consumer sitting in its blocking read has a byte to     *)
(* read (it then drains, scans, checks the flag and ends).                  *)
(***************************************************************************)
EXTENDS Naturals, TLAPS

CONSTANTS N, Handlers, Closers
ASSUME NNat == N \in Nat

VARIABLES slot, bytes, hpc, cpc, pos, closed, clpc

vars == <<slot, bytes, hpc, cpc, pos, closed, clpc>>
Sigs == 0..(N - 1)

Init ==
    /\ slot = [s \in Sigs |-> FALSE] /\ bytes = 0
    /\ hpc = [h \in Handlers |-> "idle"]
    /\ cpc = "check" /\ pos = 0
    /\ closed = FALSE /\ clpc = [c \in Closers |-> "start"]

H_Store(h, s) ==
    /\ hpc[h] = "idle"
    /\ slot' = [slot EXCEPT ![s] = TRUE]
    /\ hpc' = [hpc EXCEPT ![h] = "wake"]
    /\ UNCHANGED <<bytes, cpc, pos, closed, clpc>>

H_Wake(h) ==
    /\ hpc[h] = "wake"
    /\ bytes' = bytes + 1
    /\ hpc' = [hpc EXCEPT ![h] = "idle"]
    /\ UNCHANGED <<slot, cpc, pos, closed, clpc>>

Cl_Flag(c) ==
    /\ clpc[c] = "start"
    /\ closed' = TRUE
    /\ clpc' = [clpc EXCEPT ![c] = "wake"]
    /\ UNCHANGED <<slot, bytes, hpc, cpc, pos>>

Cl_Wake(c) ==
    /\ clpc[c] = "wake"
    /\ bytes' = bytes + 1
    /\ clpc' = [clpc EXCEPT ![c] = "done"]
    /\ UNCHANGED <<slot, hpc, cpc, pos, closed>>

C_Check ==
    /\ cpc = "check"
    /\ cpc' = IF closed THEN "ended" ELSE "read"
    /\ UNCHANGED <<slot, bytes, hpc, pos, closed, clpc>>

C_Read ==
    /\ cpc = "read" /\ bytes > 0
    /\ bytes' = bytes - 1
    /\ cpc' = "flush"
    /\ UNCHANGED <<slot, hpc, pos, closed, clpc>>

C_Flush ==
    /\ cpc = "flush"
    /\ bytes' = 0
    /\ cpc' = "scan" /\ pos' = 0
    /\ UNCHANGED <<slot, hpc, closed, clpc>>

C_Scan ==
    /\ cpc = "scan"
    /\ IF pos < N
       THEN /\ slot' = [slot EXCEPT ![pos] = FALSE]
            /\ pos' = pos + 1
            /\ UNCHANGED cpc
       ELSE /\ cpc' = "check"
            /\ UNCHANGED <<slot, pos>>
    /\ UNCHANGED <<bytes, hpc, closed, clpc>>

Next ==
    \/ \E h \in Handlers : (\E s \in Sigs : H_Store(h, s)) \/ H_Wake(h)
    \/ \E c \in Closers : Cl_Flag(c) \/ Cl_Wake(c)
    \/ C_Check \/ C_Read \/ C_Flush \/ C_Scan
Spec == Init /\ [][Next]_vars

WakeComing == bytes > 0 \/ (\E h \in Handlers : hpc[h] = "wake") \/ (\E c \in Closers : clpc[c] = "wake")

NoLostWakeup == \A s \in Sigs : (cpc = "read" /\ slot[s]) => WakeComing
CloseUnblocks == (cpc = "read" /\ \E c \in Closers : clpc[c] = "done") => bytes > 0
ClosedSticky == (\E c \in Closers : clpc[c] # "start") => closed

TypeOK ==
    /\ slot \in [Sigs -> BOOLEAN] /\ bytes \in Nat
    /\ hpc \in [Handlers -> {"idle", "wake"}]
    /\ cpc \in {"check", "read", "flush", "scan", "ended"} /\ pos \in Nat
    /\ closed \in BOOLEAN /\ clpc \in [Closers -> {"start", "wake", "done"}]

Covered ==
    \A s \in Sigs : slot[s] =>
        \/ WakeComing
        \/ cpc = "flush"
        \/ cpc = "scan" /\ pos <= s

\* a consumer that went on to read although the flag is up passed its check before the flag went
\* up: every closer that has finished since has left its byte in the pipe
CloseInv ==
    /\ (\E c \in Closers : clpc[c] # "start") => closed
    /\ (cpc = "read" /\ closed) =>
          \/ bytes > 0
          \/ \A c \in Closers : clpc[c] # "done"

IndInv == TypeOK /\ Covered /\ CloseInv

THEOREM InitInv == Init => IndInv
  BY NNat DEF Init, IndInv, TypeOK, Covered, CloseInv, WakeComing, Sigs

THEOREM InvSafe == IndInv => NoLostWakeup /\ CloseUnblocks /\ ClosedSticky
  BY NNat DEF IndInv, TypeOK, Covered, CloseInv, NoLostWakeup, CloseUnblocks, ClosedSticky, WakeComing, Sigs

THEOREM Step == IndInv /\ [Next]_vars => IndInv'
<1> SUFFICES ASSUME IndInv, [Next]_vars PROVE IndInv'
  OBVIOUS
<1> USE NNat DEF IndInv, TypeOK, Covered, CloseInv, WakeComing, Sigs
<1>1. ASSUME NEW h \in Handlers, NEW s \in Sigs, H_Store(h, s) PROVE IndInv'
  BY <1>1 DEF H_Store
<1>2. ASSUME NEW h \in Handlers, H_Wake(h) PROVE IndInv'
  BY <1>2 DEF H_Wake
<1>3. ASSUME NEW c \in Closers, Cl_Flag(c) PROVE IndInv'
  BY <1>3 DEF Cl_Flag
<1>4. ASSUME NEW c \in Closers, Cl_Wake(c) PROVE IndInv'
  BY <1>4 DEF Cl_Wake
<1>5. CASE C_Check
  BY <1>5 DEF C_Check
<1>6. CASE C_Read
  BY <1>6 DEF C_Read
<1>7. CASE C_Flush
  BY <1>7 DEF C_Flush
<1>8. CASE C_Scan
  BY <1>8 DEF C_Scan
<1>9. CASE UNCHANGED vars
  BY <1>9 DEF vars
<1> QED
  BY <1>1, <1>2, <1>3, <1>4, <1>5, <1>6, <1>7, <1>8, <1>9 DEF Next

THEOREM Safety == Spec => [](NoLostWakeup /\ CloseUnblocks /\ ClosedSticky)
<1>1. Spec => []IndInv
  BY InitInv, Step, PTL DEF Spec
<1> QED
  BY <1>1, InvSafe, PTL
=============================================================================
