--------------------------- MODULE TraceHalfLockAbs ---------------------------
(* Validates recorded executions of the real half-lock against HalfLockAbs. *)
EXTENDS HalfLockAbs, Sequences, TLC, Json, IOUtils

Rec == ndJsonDeserialize(IOEnv.TRACE)

VARIABLE l

IsEvent(e) == l <= Len(Rec) /\ Rec[l].e = e /\ l' = l + 1
R == Rec[l]

TInit == AbsInit /\ l = 1

TReset == IsEvent("reset") /\ (l = 1 \/ Quiescent) /\ AbsReset
TAlloc == IsEvent("alloc") /\ AAlloc(R.t, R.d, R.s)
TPublish == IsEvent("publish") /\ APublish(R.t, R.d, R.s)
TOpen == IsEvent("open") /\ AOpen(R.t, R.d, R.s)
TUse == IsEvent("use") /\ AUse(R.t, R.d, R.s)
TClose == IsEvent("close") /\ AClose(R.t, R.d, R.s)
TFree == IsEvent("free") /\ AFree(R.t, R.d, R.s)
TDeliver == IsEvent("deliver") /\ UNCHANGED absvars
TReturn == IsEvent("return") /\ AReturn(R.t, R.d)
TDone == IsEvent("done") /\ AReturn(R.t, 0)
\* deadlock / livelock / aborted / panic lines have no action: they reject the trace.

TNext == TReset \/ TAlloc \/ TPublish \/ TOpen \/ TUse \/ TClose \/ TFree
         \/ TDeliver \/ TReturn \/ TDone

TraceSpec == TInit /\ [][TNext]_<<absvars, l>>

\* The whole file was consumed and the last run ended quiescent.
TraceAccepted ==
    LET d == TLCGet("stats").diameter IN
    IF d - 1 = Len(Rec) THEN TRUE
    ELSE Print(<<"TRACE_REJECTED", d, Rec[d]>>, FALSE)

EndQuiescent == l = Len(Rec) + 1 => Quiescent
=============================================================================
