------------------------------ MODULE AsyncOps ------------------------------
(***************************************************************************)
(* The runtime adapters (signal-hook-tokio/src/lib.rs, signal-hook-async-   *)
(* std/src/lib.rs, signal-hook-mio/src/lib.rs) at the granularity of their  *)
(* public operations, as a single task sees them:                           *)
(*                                                                         *)
(*   P      Stream::poll_next(cx)   = SignalIterator::poll_signal with the  *)
(*          adapter's readiness callback (AsyncRead::poll_read of one byte  *)
(*          on the self-pipe's read end: Ready -> "there are signals",      *)
(*          Pending -> the reactor holds cx's waker)   tokio lib.rs:134-158 *)
(*   B      mio: Signals::pending() (flush + scan)     mio lib.rs:86-88     *)
(*   R(s)   a delivery of s (action: store slot, write one byte)            *)
(*   C      Handle::close() (set flag, write one byte) backend.rs:219-222   *)
(*   A(s)   add_signal(s)                                                   *)
(*   T      the reactor runs: a waker armed on the read end is woken iff    *)
(*          the descriptor is readable; mio (edge triggered) reports the    *)
(*          token iff a byte arrived since the last report                  *)
(*                                                                         *)
(* Two layers in one module.  The *implementation model* (ImplXxx) follows   *)
(* the code of poll_signal / poll_pending / flush / Pending::next with the  *)
(* callback's behaviour as parameters (CbArms: a Pending answer leaves the *)
(* caller's waker armed; TryFirst: the callback attempts the read before it *)
(* has a readiness event, as async-io does, or only after one, as tokio    *)
(* does).  The *monitor* (MonXxx) sees only operations and results and       *)
(* records what they prove wrong in `viol`; it is what recorded executions *)
(* of the real adapters are validated against (TraceAsync.tla), and TLC    *)
(* checks that the implementation model never trips it (Refines).          *)
(***************************************************************************)
EXTENDS Naturals, FiniteSets, Sequences, TLC

CONSTANTS Sigs,        \* signal numbers used by the scripts
          Watched0,    \* watched from construction
          MaxOps,      \* bound on the length of a history (model checking only)
          CbArms,      \* TRUE: a Pending answer of the callback leaves the waker armed (observed)
          TryFirst     \* TRUE: the callback reads optimistically (async-io); FALSE: only after readiness (tokio)

VARIABLES w, flags, closed, parked, edge, viol, ended,   \* monitor
          bytes, pos, armed, ready, nops             \* implementation model

mvars == <<w, flags, closed, parked, edge, viol, ended>>
ivars == <<bytes, pos, armed, ready, nops>>
vars == <<mvars, ivars>>

End == 1000     \* iterator position past the last slot
Min(S) == CHOOSE x \in S : \A y \in S : x <= y

MonInit == /\ w = Watched0 /\ flags = {} /\ closed = FALSE /\ parked = FALSE /\ edge = FALSE
           /\ viol = {} /\ ended = FALSE
ImplInit == bytes = 0 /\ pos = 0 /\ armed = FALSE /\ ready = FALSE /\ nops = 0
Init == MonInit /\ ImplInit

----------------------------------------------------------------------------
(* Monitor: one step per observed operation.                                *)

MonRaise(s) ==
    /\ flags' = IF s \in w THEN flags \cup {s} ELSE flags
    /\ edge' = IF s \in w THEN TRUE ELSE edge
    /\ UNCHANGED <<w, closed, parked, viol, ended>>

MonClose == closed' = TRUE /\ edge' = TRUE /\ UNCHANGED <<w, flags, parked, viol, ended>>

MonAdd(s, ok) == /\ w' = (IF ok THEN w \cup {s} ELSE w)
                 /\ UNCHANGED <<flags, closed, parked, edge, viol, ended>>

\* poll_next answered res ("pending" | "sig" | "none" | "panic"), n = the signal for "sig"
MonPoll(res, n) ==
    /\ UNCHANGED <<w, closed, edge>>
    /\ ended' = (ended \/ res = "none")
    /\ CASE res = "sig" ->
              /\ flags' = flags \ {n}
              /\ parked' = FALSE
              /\ viol' = viol \cup (IF n \in flags THEN {} ELSE
                                      IF n \in w THEN {"yield_without_delivery"}
                                      ELSE {"yield_of_unwatched_signal"})
                              \* the stream had ended (it answered None): it does not come back
                              \cup (IF ended THEN {"stream_yielded_after_it_ended"} ELSE {})
         [] res = "pending" ->
              /\ parked' = TRUE
              /\ viol' = viol \cup (IF closed THEN {"pending_after_close"} ELSE {})
                              \cup (IF ended THEN {"stream_yielded_after_it_ended"} ELSE {})
              /\ UNCHANGED flags
         [] res = "none" ->
              /\ parked' = FALSE
              /\ viol' = viol \cup (IF closed THEN {} ELSE {"stream_ended_without_close"})
              /\ UNCHANGED flags
         [] OTHER ->
              /\ parked' = FALSE /\ viol' = viol \cup {"poll_panicked"} /\ UNCHANGED flags

\* mio: pending() returned the set got
MonBatch(got) ==
    /\ flags' = {} /\ parked' = FALSE
    /\ viol' = viol \cup (IF got \subseteq flags THEN {} ELSE
                            IF got \subseteq w THEN {"yield_without_delivery"}
                            ELSE {"yield_of_unwatched_signal"})
                    \cup (IF flags \subseteq got THEN {} ELSE {"batch_misses_delivered_signal"})
    /\ edge' = FALSE          \* flush() drained whatever was in the pipe
    /\ UNCHANGED <<w, closed, ended>>

\* the reactor ran; n = wakes of the waker given to the last poll (stream adapters)
MonTurnStream(n) ==
    /\ viol' = viol \cup
          (IF parked /\ n = 0 /\ closed THEN {"stranded_after_close"} ELSE {}) \cup
          (IF parked /\ n = 0 /\ flags # {} /\ ~closed THEN {"stranded_with_unreported_signal"} ELSE {})
    /\ parked' = IF n > 0 THEN FALSE ELSE parked
    /\ edge' = FALSE
    /\ UNCHANGED <<w, flags, closed, ended>>

\* mio: Poll::poll returned n readable events for the token
MonTurnMio(n) ==
    /\ viol' = viol \cup (IF edge /\ n = 0 THEN {"no_readiness_event_after_delivery"} ELSE {})
    /\ edge' = FALSE
    /\ UNCHANGED <<w, flags, closed, parked, ended>>

\* which property each finding belongs to
V_C09 == viol \cap {"stranded_with_unreported_signal", "batch_misses_delivered_signal",
                    "no_readiness_event_after_delivery", "stream_ended_without_close",
                    "poll_panicked", "probe_died"} = {}
V_C10 == viol \cap {"yield_without_delivery", "yield_of_unwatched_signal"} = {}
V_C11 == viol \cap {"stranded_after_close", "pending_after_close", "probe_hung",
                    "stream_yielded_after_it_ended"} = {}

----------------------------------------------------------------------------
(* Implementation model: poll_signal (backend.rs:485-513) with the adapter's *)
(* callback.  One operation is one step here; the interleavings of its       *)
(* internal steps with deliveries and close() are Iterator.tla's business.   *)

FirstFrom(p) == IF \E s \in flags : s >= p THEN Min({s \in flags : s >= p}) ELSE End

\* outcome of the callback when the iterator is exhausted: <<answer, bytes', ready', armed'>>
\* "yes": a byte was read (then flush() drains the rest); "no": Pending, waker armed if CbArms
CbOutcomes ==
    (IF bytes > 0 /\ (ready \/ TryFirst) THEN {<<"yes", 0, ready, armed>>} ELSE {}) \cup
    (IF bytes = 0 \/ (~ready /\ ~TryFirst) THEN {<<"no", bytes, FALSE, CbArms>>} ELSE {})

\* <<res, n, flags', bytes', pos', ready', armed'>>
PollOutcomes ==
    IF closed THEN {<<"none", 0, flags, bytes, pos, ready, armed>>}
    ELSE LET s1 == FirstFrom(pos) IN
         IF s1 # End THEN {<<"sig", s1, flags \ {s1}, bytes, s1, ready, armed>>}
         ELSE UNION {
              IF cb[1] = "no"
              THEN {<<"pending", 0, flags, cb[2], End, cb[3], cb[4]>>}
              ELSE \* new batch from position 0; the loop runs again
                   LET s2 == FirstFrom(0) IN
                   IF s2 # End THEN {<<"sig", s2, flags \ {s2}, 0, s2, cb[3], cb[4]>>}
                   ELSE \* second consultation, the pipe is empty now
                        {<<"pending", 0, flags, 0, End, FALSE, CbArms>>}
              : cb \in CbOutcomes }

Count == nops < MaxOps /\ nops' = nops + 1

ImplPoll == \E o \in PollOutcomes :
    /\ Count
    /\ MonPoll(o[1], o[2])
    /\ flags' = o[3] /\ bytes' = o[4] /\ pos' = o[5] /\ ready' = o[6] /\ armed' = o[7]

ImplRaise(s) ==
    /\ Count /\ MonRaise(s)
    /\ bytes' = IF s \in w THEN bytes + 1 ELSE bytes
    /\ UNCHANGED <<pos, armed, ready>>

ImplClose == Count /\ ~closed /\ MonClose /\ bytes' = bytes + 1 /\ UNCHANGED <<pos, armed, ready>>

ImplAdd(s) == Count /\ s \notin w /\ MonAdd(s, TRUE) /\ UNCHANGED <<bytes, pos, armed, ready>>

ImplTurn ==
    /\ Count
    /\ LET woke == armed /\ bytes > 0 IN
       /\ MonTurnStream(IF woke THEN 1 ELSE 0)
       /\ armed' = IF woke THEN FALSE ELSE armed
       /\ ready' = (bytes > 0)
    /\ UNCHANGED <<bytes, pos>>

Next == ImplPoll \/ ImplClose \/ ImplTurn \/ (\E s \in Sigs : ImplRaise(s) \/ ImplAdd(s))
Spec == Init /\ [][Next]_vars

\* The implementation model never trips the monitor: with a callback that arms the waker, no
\* history of operations strands the task, invents or loses a signal, or outlives close().
Refines == viol = {}
\* The waker a parked task relies on is armed whenever there is something it must learn.
ParkedIsArmed == (parked /\ (flags # {} \/ closed)) => (armed /\ bytes > 0)
=============================================================================
