------------------------------ MODULE Iterator ------------------------------
(***************************************************************************)
(* The signal iterators' wake-up protocol (iterator/backend.rs,             *)
(* iterator/mod.rs, exfiltrator/mod.rs::SignalOnly, low_level/pipe.rs):    *)
(*                                                                         *)
(*  action (in the signal handler)        backend.rs:139-144               *)
(*     H_Store   slot.store(true)         exfiltrator/mod.rs:139           *)
(*     H_Wake    send(pipe, 1 byte)       pipe.rs:149                      *)
(*  consumer                                                               *)
(*     C_Closed  handle.is_closed()       backend.rs:353 / :460            *)
(*     C_Cb      readiness callback: blocking read of one byte             *)
(*               (mod.rs:205-217) or a non-blocking try (async adapters)   *)
(*     C_Flush   drain the pipe           backend.rs:303-324               *)
(*     C_Scan    slot CAS true->false, in signal-number order  :394-407    *)
(*     C_Return  hand the batch / one signal / Pending / Closed back       *)
(*  close()      Cl_Flag  closed.store(true)   backend.rs:220              *)
(*               Cl_Wake  wake the pipe        backend.rs:221              *)
(*                                                                         *)
(* Calls modelled: wait(), pending(), poll_signal() with a blocking or a   *)
(* non-blocking callback (forever() is poll_signal(blocking) in a loop).   *)
(* Handlers run on handler threads or nested on the consumer's thread at   *)
(* any of its boundaries.                                                  *)
(*                                                                         *)
(* Parameters extracted from the running code: ActionOrder, ConsumerOrder  *)
(* (drain before scan), CloseOrder, PollRecheck (poll_signal re-checks     *)
(* closed when poll_pending answered None).                                *)
(***************************************************************************)
EXTENDS Naturals, Sequences, FiniteSets, TLC

CONSTANTS Sigs,            \* watched signal numbers
          HandlerThreads,  \* threads that take deliveries
          Deliveries,      \* [HandlerThreads -> Seq(Sigs)]
          Calls,           \* consumer script: Seq of "wait" | "pending" | "pollb" | "polln"
          Closers,         \* threads that call close() once
          MaxNested,       \* deliveries nested on the consumer's thread
          NestedSigs,
          ActionOrder,     \* "store_then_wake" (the code) | "wake_then_store"
          ConsumerOrder,   \* "drain_then_scan" (the code) | "scan_then_drain"
          CloseOrder,      \* "flag_then_wake" (the code) | "wake_then_flag"
          PollRecheck,     \* TRUE (after the fix of D1)
          CbArms           \* a non-blocking callback that answers "nothing" leaves the caller's waker
                           \* armed on the read end (the async adapters: observed, see AsyncOps.tla)

VARIABLES flag, bytes, closed,
          hpc, hidx,        \* handler threads: pc and position in their delivery script
          npc, nsig, nnest, \* the handler nested on the consumer: pc, signal, how many so far
          cpc, ci, scanPos, batchOpen, consulted, lastAns, result,
          clpc,             \* closers
          armed,            \* the reactor holds the poller's waker (non-blocking callback only)
          begun, yielded, bad

vars == <<flag, bytes, closed, hpc, hidx, npc, nsig, nnest, cpc, ci, scanPos, batchOpen, consulted,
          lastAns, result, clpc, armed, begun, yielded, bad>>

First(o) == IF o = "store_then_wake" THEN "store" ELSE "wake"
SortedSigs == CHOOSE s \in [1..Cardinality(Sigs) -> Sigs] :
                 \A i, j \in 1..Cardinality(Sigs) : i < j => s[i] < s[j]
NS == Cardinality(Sigs)

Init ==
    /\ flag = [s \in Sigs |-> FALSE] /\ bytes = 0 /\ closed = FALSE
    /\ hpc = [t \in HandlerThreads |-> "idle"] /\ hidx = [t \in HandlerThreads |-> 1]
    /\ npc = "none" /\ nsig = 0 /\ nnest = 0
    /\ cpc = "idle" /\ ci = 1 /\ scanPos = NS + 1 /\ batchOpen = FALSE
    /\ consulted = FALSE /\ lastAns = FALSE /\ result = "none"
    /\ clpc = [t \in Closers |-> "start"] /\ armed = FALSE
    /\ begun = [s \in Sigs |-> 0] /\ yielded = [s \in Sigs |-> 0]
    /\ bad = {}

----------------------------------------------------------------------------
(* the action, on a handler thread *)
HSig(t) == Deliveries[t][hidx[t]]

H_Begin(t) ==
    /\ hpc[t] = "idle" /\ hidx[t] <= Len(Deliveries[t])
    /\ hpc' = [hpc EXCEPT ![t] = First(ActionOrder)]
    /\ begun' = [begun EXCEPT ![HSig(t)] = @ + 1]
    /\ UNCHANGED <<flag, bytes, closed, hidx, npc, nsig, nnest, cpc, ci, scanPos, batchOpen,
                   consulted, lastAns, result, clpc, armed, yielded, bad>>

H_Store(t) ==
    /\ hpc[t] = "store"
    /\ flag' = [flag EXCEPT ![HSig(t)] = TRUE]
    /\ IF ActionOrder = "store_then_wake"
       THEN hpc' = [hpc EXCEPT ![t] = "wake"] /\ UNCHANGED hidx
       ELSE hpc' = [hpc EXCEPT ![t] = "idle"] /\ hidx' = [hidx EXCEPT ![t] = @ + 1]
    /\ UNCHANGED <<bytes, closed, npc, nsig, nnest, cpc, ci, scanPos, batchOpen, consulted,
                   lastAns, result, clpc, armed, begun, yielded, bad>>

H_Wake(t) ==
    /\ hpc[t] = "wake"
    /\ bytes' = bytes + 1
    /\ IF ActionOrder = "store_then_wake"
       THEN hpc' = [hpc EXCEPT ![t] = "idle"] /\ hidx' = [hidx EXCEPT ![t] = @ + 1]
       ELSE hpc' = [hpc EXCEPT ![t] = "store"] /\ UNCHANGED hidx
    /\ UNCHANGED <<flag, closed, npc, nsig, nnest, cpc, ci, scanPos, batchOpen, consulted,
                   lastAns, result, clpc, armed, begun, yielded, bad>>

(* the action, nested on the consumer's thread (the consumer does not step meanwhile) *)
N_Begin(s) ==
    /\ npc = "none" /\ nnest < MaxNested /\ s \in NestedSigs
    /\ npc' = First(ActionOrder) /\ nsig' = s /\ nnest' = nnest + 1
    /\ begun' = [begun EXCEPT ![s] = @ + 1]
    /\ UNCHANGED <<flag, bytes, closed, hpc, hidx, cpc, ci, scanPos, batchOpen, consulted,
                   lastAns, result, clpc, armed, yielded, bad>>

N_Store ==
    /\ npc = "store"
    /\ flag' = [flag EXCEPT ![nsig] = TRUE]
    /\ npc' = IF ActionOrder = "store_then_wake" THEN "wake" ELSE "none"
    /\ UNCHANGED <<bytes, closed, hpc, hidx, nsig, nnest, cpc, ci, scanPos, batchOpen, consulted,
                   lastAns, result, clpc, armed, begun, yielded, bad>>

N_Wake ==
    /\ npc = "wake"
    /\ bytes' = bytes + 1
    /\ npc' = IF ActionOrder = "store_then_wake" THEN "none" ELSE "store"
    /\ UNCHANGED <<flag, closed, hpc, hidx, nsig, nnest, cpc, ci, scanPos, batchOpen, consulted,
                   lastAns, result, clpc, armed, begun, yielded, bad>>

----------------------------------------------------------------------------
(* close() *)
Cl_Step(t) ==
    /\ clpc[t] \in {"start", "second"}
    /\ LET doFlag == (clpc[t] = "start") = (CloseOrder = "flag_then_wake") IN
       IF doFlag THEN closed' = TRUE /\ UNCHANGED bytes
                 ELSE bytes' = bytes + 1 /\ UNCHANGED closed
    /\ clpc' = [clpc EXCEPT ![t] = IF @ = "start" THEN "second" ELSE "done"]
    /\ UNCHANGED <<flag, hpc, hidx, npc, nsig, nnest, cpc, ci, scanPos, batchOpen, consulted,
                   lastAns, result, armed, begun, yielded, bad>>

----------------------------------------------------------------------------
(* the consumer; it only steps while no handler is nested on it *)
Call == Calls[ci]
AfterCb == IF ConsumerOrder = "drain_then_scan" THEN "flush" ELSE "scan"

C_Start ==
    /\ npc = "none" /\ cpc = "idle" /\ ci <= Len(Calls)
    /\ consulted' = FALSE /\ lastAns' = FALSE /\ result' = "none"
    /\ cpc' = CASE Call = "pending" -> AfterCb
                [] Call = "wait" -> "closed1"
                [] OTHER -> "pclosed"          \* poll_signal: while !closed
    /\ scanPos' = IF Call \in {"pending", "wait"} THEN 1 ELSE scanPos
    /\ batchOpen' = IF Call \in {"pending", "wait"} THEN FALSE ELSE batchOpen
    /\ armed' = FALSE          \* only a waker armed during the call that answers Pending counts
    /\ UNCHANGED <<flag, bytes, closed, hpc, hidx, npc, nsig, nnest, ci, clpc, begun, yielded, bad>>

\* wait(): poll_pending's closed check; closed -> pending() directly
C_Closed1 ==
    /\ npc = "none" /\ cpc = "closed1"
    /\ cpc' = IF closed THEN AfterCb ELSE "cb"
    /\ UNCHANGED <<flag, bytes, closed, hpc, hidx, npc, nsig, nnest, ci, scanPos, batchOpen,
                   consulted, lastAns, result, clpc, armed, begun, yielded, bad>>

\* the readiness callback
Blocking == Call \in {"wait", "pollb"}
C_Cb ==
    /\ npc = "none" /\ cpc = "cb"
    /\ Blocking => bytes > 0                       \* a blocking read waits for a byte
    /\ consulted' = TRUE
    /\ lastAns' = (bytes > 0)
    /\ bytes' = IF bytes > 0 THEN bytes - 1 ELSE bytes
    /\ cpc' = IF bytes > 0 THEN (IF Call \in {"pollb", "polln"} THEN "flush" ELSE AfterCb)
              ELSE "ret_pending"
    /\ scanPos' = IF bytes > 0 THEN 1 ELSE scanPos
    /\ armed' = IF ~Blocking /\ bytes = 0 THEN CbArms ELSE armed
    /\ UNCHANGED <<flag, closed, hpc, hidx, npc, nsig, nnest, ci, batchOpen, result, clpc, begun,
                   yielded, bad>>

C_Flush ==
    /\ npc = "none" /\ cpc = "flush"
    /\ bytes' = 0
    /\ cpc' = IF Call \in {"pollb", "polln"} THEN "pclosed"       \* new batch, back to the loop top
              ELSE IF ConsumerOrder = "drain_then_scan" THEN "scan" ELSE "scandone"
    /\ UNCHANGED <<flag, closed, hpc, hidx, npc, nsig, nnest, ci, scanPos, batchOpen, consulted,
                   lastAns, result, clpc, armed, begun, yielded, bad>>

\* One slot of the scan. wait()/pending() hand back the whole batch, so they scan on;
\* poll_signal returns the first signal it finds and keeps its position for the next call.
C_Scan ==
    /\ npc = "none" /\ cpc = "scan"
    /\ IF scanPos > NS
       THEN /\ cpc' = IF ConsumerOrder = "drain_then_scan" THEN "scandone" ELSE "flush"
            /\ UNCHANGED <<flag, scanPos, yielded, result>>
       ELSE LET s == SortedSigs[scanPos] IN
            IF flag[s]
            THEN /\ flag' = [flag EXCEPT ![s] = FALSE]
                 /\ yielded' = [yielded EXCEPT ![s] = @ + 1]
                 /\ IF Call \in {"pollb", "polln"}
                    THEN cpc' = "return" /\ result' = "signal" /\ UNCHANGED scanPos
                    ELSE UNCHANGED <<cpc, scanPos, result>>
            ELSE /\ scanPos' = scanPos + 1
                 /\ UNCHANGED <<flag, yielded, cpc, result>>
    /\ UNCHANGED <<bytes, closed, hpc, hidx, npc, nsig, nnest, ci, batchOpen, consulted, lastAns,
                   clpc, armed, begun, bad>>

C_ScanDone ==
    /\ npc = "none" /\ cpc = "scandone"
    /\ IF Call \in {"pollb", "polln"}
       THEN cpc' = "ppoll"                       \* the batch is exhausted: poll_pending
       ELSE cpc' = "return"
    /\ result' = IF Call \in {"pollb", "polln"} THEN result ELSE "batch"
    /\ UNCHANGED <<flag, bytes, closed, hpc, hidx, npc, nsig, nnest, ci, scanPos, batchOpen,
                   consulted, lastAns, clpc, armed, begun, yielded, bad>>

\* poll_signal: `while !is_closed()`, then continue the current batch
C_PClosed ==
    /\ npc = "none" /\ cpc = "pclosed"
    /\ IF closed THEN cpc' = "return" /\ result' = "closed"
       ELSE /\ cpc' = IF scanPos <= NS THEN "scan" ELSE "ppoll"
            /\ UNCHANGED result
    /\ UNCHANGED <<flag, bytes, closed, hpc, hidx, npc, nsig, nnest, ci, scanPos, batchOpen,
                   consulted, lastAns, clpc, armed, begun, yielded, bad>>

\* poll_pending inside poll_signal: its own closed check
C_PPoll ==
    /\ npc = "none" /\ cpc = "ppoll"
    /\ IF closed
       THEN IF PollRecheck THEN cpc' = "return" /\ result' = "closed"
            ELSE cpc' = "ret_pending" /\ UNCHANGED result
       ELSE cpc' = "cb" /\ UNCHANGED result
    /\ UNCHANGED <<flag, bytes, closed, hpc, hidx, npc, nsig, nnest, ci, scanPos, batchOpen,
                   consulted, lastAns, clpc, armed, begun, yielded, bad>>

\* Pending is reported (for wait(): the callback is blocking, so this is unreachable)
C_RetPending ==
    /\ npc = "none" /\ cpc = "ret_pending"
    /\ result' = "pending"
    /\ bad' = bad \cup (IF consulted /\ ~lastAns THEN {} ELSE {"pending_without_consulting"})
    /\ cpc' = "return"
    /\ UNCHANGED <<flag, bytes, closed, hpc, hidx, npc, nsig, nnest, ci, scanPos, batchOpen,
                   consulted, lastAns, clpc, armed, begun, yielded>>

C_Return ==
    /\ npc = "none" /\ cpc = "return"
    /\ cpc' = "idle" /\ ci' = ci + 1
    /\ UNCHANGED <<flag, bytes, closed, hpc, hidx, npc, nsig, nnest, scanPos, batchOpen, consulted,
                   lastAns, result, clpc, armed, begun, yielded, bad>>

CStep == C_Start \/ C_Closed1 \/ C_Cb \/ C_Flush \/ C_Scan \/ C_ScanDone \/ C_PClosed \/ C_PPoll
         \/ C_RetPending \/ C_Return
HStep(t) == H_Begin(t) \/ H_Store(t) \/ H_Wake(t)
NStep == (\E s \in Sigs : N_Begin(s)) \/ N_Store \/ N_Wake

AllDone == /\ ci > Len(Calls) /\ cpc = "idle" /\ npc = "none"
           /\ \A t \in HandlerThreads : hpc[t] = "idle" /\ hidx[t] > Len(Deliveries[t])
           /\ \A t \in Closers : clpc[t] = "done"

Next == CStep \/ NStep \/ (\E t \in HandlerThreads : HStep(t)) \/ (\E t \in Closers : Cl_Step(t))
        \/ (UNCHANGED vars)
Spec == Init /\ [][Next]_vars
FairSpec == /\ Spec /\ WF_vars(CStep) /\ WF_vars(N_Store \/ N_Wake)
            /\ (\A t \in HandlerThreads : WF_vars(H_Store(t) \/ H_Wake(t)))
            /\ (\A u \in Closers : WF_vars(Cl_Step(u)))

----------------------------------------------------------------------------
(* Properties *)

\* Some action that has stored (or will store) is still going to write its byte.
WakeOutstanding ==
    \/ bytes > 0
    \/ \E t \in HandlerThreads : hpc[t] = "wake"
    \/ npc = "wake"
    \* with the wrong order a handler that woke first still has its store to do; the signal it
    \* carries is not in the slot yet, so it does not count as unreported
    \/ FALSE

Unreported == \E s \in Sigs : flag[s]

\* C09: the consumer is never blocked in the read, nor parked as `pending`, with a stored,
\* unreported signal and nothing that will wake it.
BlockedInRead == cpc = "cb" /\ Blocking /\ bytes = 0
Parked == cpc = "idle" /\ result = "pending"
NoLostWakeup == ((BlockedInRead \/ Parked) /\ ~closed /\ Unreported) => WakeOutstanding

\* C09 / C11 for an async poller: a task parked on Pending relies on the waker the callback armed
\* during that very call; and once close() has completed the byte it wrote is still there for
\* the reactor to see.
ParkedIsArmed == Parked => armed
ParkedWokenByClose ==
    (Parked /\ closed /\ \A t \in Closers : clpc[t] = "done") => (armed /\ bytes > 0)

\* C10: never more yields than deliveries begun.
YieldBounded == \A s \in Sigs : yielded[s] <= begun[s]

\* C11: Pending only after the callback was consulted and answered no.
PendingOnlyIfConsulted == "pending_without_consulting" \notin bad

\* C11: after close() completed nobody stays blocked: the byte of close() is there or the
\* consumer is not in a blocking read.
CloseUnblocks ==
    (closed /\ \A t \in Closers : clpc[t] = "done") => ~(BlockedInRead /\ ~WakeOutstanding)

\* C09/C11 liveness: every call returns once deliveries stopped, provided a close() comes.
CallsReturn == (Closers # {}) => <>[](ci > Len(Calls) \/ cpc = "idle")
=============================================================================
