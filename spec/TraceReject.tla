----------------------------- MODULE TraceReject -----------------------------
(* C14: one forked probe per (entry point, number, fresh / already used process). *)
EXTENDS RejectOps, TLC, Json, IOUtils

Rec == ndJsonDeserialize(IOEnv.TRACE)
VARIABLES l, viol
tvars == <<l, viol>>
R == Rec[l]
Flg(c, s) == IF c THEN {s} ELSE {}
Range(s) == {s[i] : i \in 1..Len(s)}

TInit == l = 1 /\ viol = {}

Class(c) == IF c = "ok" THEN "ok" ELSE IF c = "panic" THEN "panic" ELSE "err"

TProbe ==
    /\ l <= Len(Rec) /\ R.e = "reject" /\ l' = l + 1
    /\ IF R.status # "exited:0"
       THEN viol' = viol \cup {"process_aborted_instead_of_catchable_refusal"}
       ELSE LET want == Expected(R.entry, R.n)
                got == Class(R.r.class)
                refused == want # "ok" IN
            viol' = viol
              \cup Flg(got # want, "wrong_outcome_class")
              \cup Flg(R.r.class \notin {"ok", "panic", "err:22"}, "unexpected_errno")
              \cup Flg(refused /\ R.r.changed # << >>, "disposition_changed_by_refused_call")
              \cup Flg(~refused /\ ~(Range(R.r.changed) \subseteq {R.n}), "foreign_disposition_changed")
              \cup Flg(refused /\ R.r.reg_changed # << >>, "registry_changed_by_refused_call")
              \cup Flg(~refused /\ ~(Range(R.r.reg_changed) \subseteq
                                      (IF R.entry = "signals_new_after_valid" THEN {R.n, 12} ELSE {R.n})),
                       "foreign_registrations_changed")
              \cup Flg(refused /\ R.r.fds_delta # 0, "descriptor_leaked_by_refused_constructor")
              \cup Flg(refused /\ R.r.drops # 1, "captured_state_not_released")
              \cup Flg(refused /\ (R.r.flag_rc # 1 \/ R.r.usz_rc # 1), "flag_reference_leaked")
              \cup Flg(refused /\ R.r.fd_open = 1, "descriptor_leaked")
              \cup Flg(refused /\ R.r.fd_open # -1 /\ R.r.fd_closes # 1,
                       "captured_descriptor_not_closed_exactly_once")
              \cup Flg(R.r.usable # 1, "library_unusable_afterwards")
              \cup Flg(R.r.inst_ok = 0, "instance_broken_by_rejected_add")

TraceSpec == TInit /\ [][TProbe]_tvars
TraceAccepted ==
    LET d == TLCGet("stats").diameter IN
    IF d - 1 = Len(Rec) THEN TRUE ELSE Print(<<"TRACE_REJECTED", d, Rec[d]>>, FALSE)
V_C14 == viol = {}
=============================================================================
